import MaestroVerif.Lemmas.ExpandComplete
import MaestroVerif.Lemmas.ExpandStage
import MaestroVerif.Lemmas.SubstLemmas

/-!
# The dependency sets a step's staging leaves behind (C08)

`Owed U C spec st row`: the parents the instance of `st` for row `row` is owed, read from a table of
used parameters `U` and a table of instances per step `C`.  `stageStep_deps`: when the staging of a
parameterised step returns, the dependency set of the instance of every row is exactly what some
row *of the same instance name* is owed - the instance is placed once per row that shares its name,
each placement resets the set and wires it again - read from the tables as the step leaves them;
the dependency sets of all other names are untouched.
-/
namespace MaestroVerif.Expand
open MaestroVerif.Subst

def Owed (U C : AL) (spec : Spec) (st : Step) (row : Nat) (x : Str) : Prop :=
  if depsOf st = [] ∧ hubOf st = [] then x = SOURCE
  else ((∃ p, p ∈ depsOf st ∧ x = instName p (getAssoc U p) (combo spec.params row)) ∨
        (∃ hb, hb ∈ hubOf st ∧ x ∈ getAssoc C hb))

theorem owed_congr {U C U' C' : AL} (spec : Spec) (st : Step) (row : Nat)
    (hU : ∀ p, p ∈ depsOf st → getAssoc U' p = getAssoc U p)
    (hC : ∀ hb, hb ∈ hubOf st → getAssoc C' hb = getAssoc C hb) (x : Str) :
    Owed U' C' spec st row x ↔ Owed U C spec st row x := by
  unfold Owed
  split
  · rfl
  · constructor
    · rintro (⟨p, hp, e⟩ | ⟨hb, h1, h2⟩)
      · exact Or.inl ⟨p, hp, by rw [← hU p hp]; exact e⟩
      · exact Or.inr ⟨hb, h1, by rw [← hC hb h1]; exact h2⟩
    · rintro (⟨p, hp, e⟩ | ⟨hb, h1, h2⟩)
      · exact Or.inl ⟨p, hp, by rw [hU p hp]; exact e⟩
      · exact Or.inr ⟨hb, h1, by rw [hC hb h1]; exact h2⟩

private theorem sortDedup_isEmpty' (l : List Str) : (sortDedup l).isEmpty = l.isEmpty := by
  cases l with
  | nil => rfl
  | cons a as =>
    have : a ∈ sortDedup (a :: as) := mem_sortDedup.mpr (List.mem_cons_self ..)
    cases h : sortDedup (a :: as) with
    | nil => rw [h] at this; cases this
    | cons _ _ => rfl

/-- the wiring handed to `place` for a row is what the row is owed -/
theorem wired_iff_owed_row (spec : Spec) (st : Step) (s : SS) (row : Nat) (v : List Str)
    (hself : st.name ∉ hubOf st) (x : Str) :
    wiredTo ((sortDedup (depsOf st)).isEmpty && (sortDedup (hubOf st)).isEmpty)
      ((sortDedup (depsOf st)).map fun p => instName p (getAssoc s.used p) (combo spec.params row))
      (sortDedup (hubOf st)) (setAssoc s.combos st.name v) x ↔
    Owed s.used s.combos spec st row x := by
  simp only [wiredTo, Owed, Bool.and_eq_true, sortDedup_isEmpty', List.isEmpty_iff]
  by_cases hr : depsOf st = [] ∧ hubOf st = []
  · simp only [hr, and_self, ↓reduceIte]
  · simp only [hr, ↓reduceIte]
    constructor
    · rintro (hx | ⟨hb, h1, h2⟩)
      · simp only [List.mem_map] at hx
        obtain ⟨p, hp, rfl⟩ := hx
        exact Or.inl ⟨p, mem_sortDedup.mp hp, rfl⟩
      · have hb' := mem_sortDedup.mp h1
        have hne : hb ≠ st.name := fun e => hself (e ▸ hb')
        rw [getAssoc_setAssoc_ne _ _ _ _ hne] at h2
        exact Or.inr ⟨hb, hb', h2⟩
    · rintro (⟨p, hp, rfl⟩ | ⟨hb, h1, h2⟩)
      · exact Or.inl (List.mem_map.mpr ⟨p, mem_sortDedup.mpr hp, rfl⟩)
      · have hne : hb ≠ st.name := fun e => hself (e ▸ h1)
        refine Or.inr ⟨hb, mem_sortDedup.mpr h1, ?_⟩
        rw [getAssoc_setAssoc_ne _ _ _ _ hne]; exact h2

/-- one row: the instance's dependency set is what the row is owed (tables of the state the row
starts from), every other dependency set is untouched, the instance has become a child of exactly
the parents it is owed, the tables other than the step's own entry of `combos` are kept -/
theorem stageRow_deps (spec : Spec) {ord : List Str → List Str} (ho : IsPermOracle ord)
    (st : Step) (used : List Str) (s s' : SS) (row : Nat)
    (hnew : s.combos.any (·.1 == instName st.name used (combo spec.params row)) = false)
    (hself : st.name ∉ hubOf st)
    (h : stageRow spec ord st used s row = .ok s') :
    (∀ x, x ∈ getAssoc s'.g.deps (instName st.name used (combo spec.params row)) ↔
      Owed s.used s.combos spec st row x) ∧
    (∀ k, k ≠ instName st.name used (combo spec.params row) →
      ∀ x, x ∈ getAssoc s'.g.deps k ↔ x ∈ getAssoc s.g.deps k) ∧
    s'.used = s.used ∧ (∀ k, k ≠ st.name → getAssoc s'.combos k = getAssoc s.combos k) ∧
    (∀ k x, x ∈ getAssoc s'.g.adj k ↔ (x ∈ getAssoc s.g.adj k ∨
      (x = instName st.name used (combo spec.params row) ∧ Owed s.used s.combos spec st row k ∧
        k ≠ instName st.name used (combo spec.params row)))) := by
  unfold stageRow at h
  simp only [hnew, Bool.false_eq_true, ↓reduceIte] at h
  split at h
  · cases h
  · obtain ⟨p1, p2, _, _, _, _, p7, p8⟩ := place_exact ho _ _ _ _ _ _ h
    have pa := place_adj_exact ho _ _ _ _ _ _ h
    refine ⟨?_, fun k hk x => p2 k hk x, p7, ?_, ?_⟩
    · intro x
      rw [p1]
      exact wired_iff_owed_row spec st s row _ hself x
    · intro k hk
      rw [p8]
      exact getAssoc_setAssoc_ne _ _ _ _ hk
    · intro k x
      rw [pa k x]
      simp only
      rw [wired_iff_owed_row spec st s row _ hself k]

/-- the loop over the rows: for every row, the dependency set of its instance is what a row of the
same instance name is owed; names that are no row's instance keep their dependency sets -/
theorem rows_deps (spec : Spec) {ord : List Str → List Str} (ho : IsPermOracle ord)
    (st : Step) (used : List Str) (hself : st.name ∉ hubOf st) (U C : AL) :
    ∀ (rows : List Nat) (s s' : SS), s.combos.any (·.1 == st.name) = true →
      (∀ row, row ∈ rows → s.combos.any (·.1 == instName st.name used (combo spec.params row)) = false) →
      s.used = U → (∀ hb, hb ∈ hubOf st → getAssoc s.combos hb = getAssoc C hb) →
      rows.foldl (fun (acc : Except Err SS) row =>
        match acc with
        | .error e => .error e
        | .ok s => stageRow spec ord st used s row) (.ok s) = .ok s' →
      (∀ row, row ∈ rows → ∃ row', row' ∈ rows ∧
        instName st.name used (combo spec.params row') = instName st.name used (combo spec.params row) ∧
        ∀ x, x ∈ getAssoc s'.g.deps (instName st.name used (combo spec.params row)) ↔
          Owed U C spec st row' x) ∧
      (∀ k, (∀ row, row ∈ rows → instName st.name used (combo spec.params row) ≠ k) →
        ∀ x, x ∈ getAssoc s'.g.deps k ↔ x ∈ getAssoc s.g.deps k) ∧
      s'.used = s.used ∧ (∀ k, k ≠ st.name → getAssoc s'.combos k = getAssoc s.combos k) ∧
      (∀ k x, x ∈ getAssoc s'.g.adj k → (x ∈ getAssoc s.g.adj k ∨ ∃ row, row ∈ rows ∧
        x = instName st.name used (combo spec.params row) ∧ Owed U C spec st row k ∧ k ≠ x)) := by
  intro rows
  induction rows with
  | nil =>
    intro s s' _ _ _ _ h
    simp only [List.foldl_nil, Except.ok.injEq] at h
    subst h
    exact ⟨fun row hr => (by cases hr), fun k _ x => Iff.rfl, rfl, fun k _ => rfl, fun k x hx => Or.inl hx⟩
  | cons r rs ih =>
    intro s s' hkey hnew hU hC h
    simp only [List.foldl_cons] at h
    cases h1 : stageRow spec ord st used s r with
    | error e =>
      rw [h1, foldl_except_error _ (fun e x => rfl)] at h
      cases h
    | ok s1 =>
      rw [h1] at h
      obtain ⟨a1, a2, a3, a4, a5⟩ := stageRow_deps spec ho st used s s1 r (hnew r (List.mem_cons_self ..)) hself h1
      obtain ⟨_, n2, _⟩ := stageRow_node spec ord st used s s1 r hkey h1
      have hC1 : ∀ hb, hb ∈ hubOf st → getAssoc s1.combos hb = getAssoc C hb := by
        intro hb hhb
        rw [a4 hb (fun e => hself (e ▸ hhb))]; exact hC hb hhb
      obtain ⟨b1, b2, b3, b4, b5⟩ := ih s1 s' (by rw [n2]; exact hkey)
        (fun row hr => by rw [n2]; exact hnew row (List.mem_cons_of_mem _ hr)) (by rw [a3, hU]) hC1 h
      refine ⟨?_, ?_, by rw [b3, a3], fun k hk => by rw [b4 k hk, a4 k hk], ?_⟩
      rotate_left 2
      · intro k x hx
        rcases b5 k x hx with h5 | ⟨row, hr, e1, e2, e3⟩
        · rcases (a5 k x).mp h5 with h6 | ⟨e1, e2, e3⟩
          · exact Or.inl h6
          · refine Or.inr ⟨r, List.mem_cons_self .., e1, ?_, fun hk => e3 (hk.trans e1)⟩
            exact (owed_congr (U := U) (C := C) (U' := s.used) (C' := s.combos) spec st r
              (fun p _ => by rw [hU]) (fun hb hhb => hC hb hhb) k).mp e2
        · exact Or.inr ⟨row, List.mem_cons_of_mem _ hr, e1, e2, e3⟩
      · intro row hr
        by_cases hex : ∃ r'', r'' ∈ rs ∧
            instName st.name used (combo spec.params r'') = instName st.name used (combo spec.params row)
        · obtain ⟨r'', hr'', e⟩ := hex
          obtain ⟨row', m1, m2, m3⟩ := b1 r'' hr''
          refine ⟨row', List.mem_cons_of_mem _ m1, m2.trans e, ?_⟩
          intro x; rw [← e]; exact m3 x
        · have hrow : row = r := by
            rcases List.mem_cons.mp hr with e | e
            · exact e
            · exact absurd ⟨row, e, rfl⟩ hex
          subst hrow
          refine ⟨row, List.mem_cons_self .., rfl, ?_⟩
          intro x
          rw [b2 _ (fun r'' hr'' e => hex ⟨r'', hr'', e⟩) x, a1 x]
          exact owed_congr spec st row (fun p _ => by rw [hU]) (fun hb hhb => hC hb hhb) x
      · intro k hk x
        rw [b2 k (fun row hr => hk row (List.mem_cons_of_mem _ hr)) x]
        exact a2 k (fun e => hk r (List.mem_cons_self ..) e.symm) x

/-- the instance names a step's staging may place: the step's own name, or one per row -/
def InstNameOf (spec : Spec) (st : Step) (used : List Str) (n : Str) : Prop :=
  if used.isEmpty then n = st.name
  else ∃ row, row < nRows spec.params ∧ n = instName st.name used (combo spec.params row)

/-- the dependency sets of the instances of `st` are what the tables say they are owed -/
def DepsOK (spec : Spec) (s : SS) (st : Step) : Prop :=
  if (getAssoc s.used st.name).isEmpty then
    ∀ x, x ∈ getAssoc s.g.deps st.name ↔ Owed s.used s.combos spec st 0 x
  else
    ∀ row, row < nRows spec.params → ∃ row', row' < nRows spec.params ∧
      instName st.name (getAssoc s.used st.name) (combo spec.params row') =
        instName st.name (getAssoc s.used st.name) (combo spec.params row) ∧
      ∀ x, x ∈ getAssoc s.g.deps (instName st.name (getAssoc s.used st.name) (combo spec.params row)) ↔
        Owed s.used s.combos spec st row' x

theorem usedOf_nil_deps (spec : Spec) (tbl : AL) (st : Step) (h : usedOf spec tbl st = .ok []) :
    ∀ p, p ∈ depsOf st → getAssoc tbl p = [] := by
  unfold usedOf at h
  split at h
  · cases h
  · rename_i pp hpp
    simp only [Except.ok.injEq] at h
    have hpp0 : pp = [] := by
      cases pp with
      | nil => rfl
      | cons a as =>
        exfalso
        have : a ∈ union (a :: as) (directParams spec st) := by
          unfold union
          suffices H : ∀ (l acc : List Str), a ∈ acc → a ∈ l.foldl (fun acc x => if acc.contains x then acc else acc ++ [x]) acc from
            H _ _ (List.mem_cons_self ..)
          intro l
          induction l with
          | nil => intro acc h; exact h
          | cons y ys ih =>
            intro acc h
            simp only [List.foldl_cons]
            apply ih
            split
            · exact h
            · exact List.mem_append_left _ h
        rw [h] at this; cases this
    subst hpp0
    -- the fold over the referenced workspaces only grows the set it starts from
    unfold inheritedParams at hpp
    have grow : ∀ (l : List Str) (acc : Except Err (List Str)) (r : List Str),
        l.foldl (fun (acc : Except Err (List Str)) ws =>
          match acc with
          | .error e => .error e
          | .ok pp =>
            if !(tbl.any (·.1 == ws)) then .error .wsBeforeGenerated
            else if (hubOf st).contains ws then .ok pp
            else .ok (union pp (getAssoc tbl ws))) acc = .ok r →
        ∀ a0, acc = .ok a0 → ∀ x, x ∈ a0 → x ∈ r := by
      intro l
      induction l with
      | nil => intro acc r h a0 ha x hx; simp only [List.foldl_nil] at h; rw [ha] at h; cases h; exact hx
      | cons w ws ih =>
        intro acc r h a0 ha x hx
        simp only [List.foldl_cons] at h
        subst ha
        simp only at h
        split at h
        · have : ∀ (l : List Str) (e : Err), l.foldl (fun (acc : Except Err (List Str)) ws =>
              match acc with
              | .error e => .error e
              | .ok pp =>
                if !(tbl.any (·.1 == ws)) then .error .wsBeforeGenerated
                else if (hubOf st).contains ws then .ok pp
                else .ok (union pp (getAssoc tbl ws))) (.error e) = .error e := by
            intro l e; induction l with
            | nil => rfl
            | cons y ys ihy => simp only [List.foldl_cons, ihy]
          rw [this] at h; cases h
        · split at h
          · exact ih _ r h a0 rfl x hx
          · refine ih _ r h _ rfl x ?_
            unfold union
            suffices H : ∀ (l acc : List Str), x ∈ acc → x ∈ l.foldl (fun acc x => if acc.contains x then acc else acc ++ [x]) acc from
              H _ _ hx
            intro l
            induction l with
            | nil => intro acc h; exact h
            | cons y ys ih2 =>
              intro acc h
              simp only [List.foldl_cons]
              apply ih2
              split
              · exact h
              · exact List.mem_append_left _ h
    have h0 := grow _ _ _ hpp _ rfl
    -- the starting set holds the used parameters of every ordinary dependency
    intro p hp
    cases hg : getAssoc tbl p with
    | nil => rfl
    | cons a as =>
      exfalso
      have hmem : a ∈ (depsOf st).foldl (fun acc d => union acc (getAssoc tbl d)) [] := by
        suffices H : ∀ (l acc : List Str), (a ∈ acc ∨ ∃ d, d ∈ l ∧ a ∈ getAssoc tbl d) →
            a ∈ l.foldl (fun acc d => union acc (getAssoc tbl d)) acc from
          H _ _ (Or.inr ⟨p, hp, by rw [hg]; exact List.mem_cons_self ..⟩)
        intro l
        induction l with
        | nil =>
          intro acc h
          rcases h with h | ⟨d, hd, _⟩
          · exact h
          · cases hd
        | cons y ys ih3 =>
          intro acc h
          simp only [List.foldl_cons]
          apply ih3
          rcases h with h | ⟨d, hd, had⟩
          · left
            unfold union
            suffices H : ∀ (l acc : List Str), a ∈ acc → a ∈ l.foldl (fun acc x => if acc.contains x then acc else acc ++ [x]) acc from
              H _ _ h
            intro l
            induction l with
            | nil => intro acc h; exact h
            | cons z zs ih4 =>
              intro acc h
              simp only [List.foldl_cons]
              apply ih4
              split
              · exact h
              · exact List.mem_append_left _ h
          · rcases List.mem_cons.mp hd with e | e
            · subst e
              left
              unfold union
              suffices H : ∀ (l acc : List Str), (a ∈ acc ∨ a ∈ l) → a ∈ l.foldl (fun acc x => if acc.contains x then acc else acc ++ [x]) acc from
                H _ _ (Or.inr had)
              intro l
              induction l with
              | nil => intro acc h; rcases h with h | h; exact h; cases h
              | cons z zs ih4 =>
                intro acc h
                simp only [List.foldl_cons]
                apply ih4
                rcases h with h | h
                · left; split
                  · exact h
                  · exact List.mem_append_left _ h
                · rcases List.mem_cons.mp h with e | e
                  · subst e
                    left
                    split
                    · rename_i hc; simpa using hc
                    · simp
                  · right; exact e
            · right; exact ⟨d, e, had⟩
      have := h0 a hmem
      cases this

/-- why `x` is a child of `k`: `x` is an instance of `st` and `k` is among the parents a row of that
name is owed -/
def AdjWitness (spec : Spec) (s : SS) (st : Step) (k x : Str) : Prop :=
  if (getAssoc s.used st.name).isEmpty then x = st.name ∧ Owed s.used s.combos spec st 0 k
  else ∃ row, row < nRows spec.params ∧
    x = instName st.name (getAssoc s.used st.name) (combo spec.params row) ∧ Owed s.used s.combos spec st row k

/-- **what the staging of one step leaves behind**: the dependency sets of its instances are what
the tables - as the step leaves them - say they are owed; no other dependency set has changed; the
tables have changed in the step's own entries only -/
theorem stageStep_deps (spec : Spec) (hc : NoClash spec) {ord : List Str → List Str} (ho : IsPermOracle ord)
    (s s' : SS) (st : Step) (hst : st ∈ spec.steps)
    (hkeys : ∀ k, s.combos.any (·.1 == k) = true → k ∈ SOURCE :: spec.steps.map (·.name))
    (hself : st.name ∉ hubOf st) (h : stageStep spec ord s st = .ok s') :
    DepsOK spec s' st ∧
    (∀ k, ¬ InstNameOf spec st (getAssoc s'.used st.name) k →
      ∀ x, x ∈ getAssoc s'.g.deps k ↔ x ∈ getAssoc s.g.deps k) ∧
    (∀ k, k ≠ st.name → getAssoc s'.used k = getAssoc s.used k ∧ getAssoc s'.combos k = getAssoc s.combos k) ∧
    (∀ k x, x ∈ getAssoc s'.g.adj k → (x ∈ getAssoc s.g.adj k ∨ (k ≠ x ∧ AdjWitness spec s' st k x))) := by
  have hname : st.name ∈ SOURCE :: spec.steps.map (·.name) :=
    List.mem_cons_of_mem _ (List.mem_map.mpr ⟨st, hst, rfl⟩)
  unfold stageStep at h
  simp only at h
  split at h
  · cases h
  · rename_i used hused
    split at h
    · -- no parameter used
      rename_i hu
      have hu0 : used = [] := by simpa using hu
      subst hu0
      split at h
      · cases h
      · obtain ⟨p1, p2, _, _, _, _, p7, p8⟩ := place_exact ho _ _ _ _ _ _ h
        simp only at p1 p2 p7 p8
        have hused' : getAssoc s'.used st.name = [] := by rw [p7, getAssoc_setAssoc_self]
        have hnil := usedOf_nil_deps spec s.used st hused
        have hw : ∀ x, wiredTo ((sortDedup (depsOf st)).isEmpty && (sortDedup (hubOf st)).isEmpty)
            (sortDedup (depsOf st)) (sortDedup (hubOf st))
            (setAssoc (setAssoc s.combos st.name []) st.name [st.name]) x ↔
            Owed s'.used s'.combos spec st 0 x := by
          intro x
          simp only [wiredTo, Owed, Bool.and_eq_true, sortDedup_isEmpty', List.isEmpty_iff]
          by_cases hr : depsOf st = [] ∧ hubOf st = []
          · simp only [hr, and_self, ↓reduceIte]
          · simp only [hr, ↓reduceIte]
            have hinst : ∀ p, p ∈ depsOf st → instName p (getAssoc s'.used p) (combo spec.params 0) = p := by
              intro p hp
              have : getAssoc s'.used p = [] := by
                rw [p7]
                by_cases e : p = st.name
                · subst e; rw [getAssoc_setAssoc_self]
                · rw [getAssoc_setAssoc_ne _ _ _ _ e]; exact hnil p hp
              simp [instName, this]
            constructor
            · rintro (hx | ⟨hb, h1, h2⟩)
              · have hx' := mem_sortDedup.mp hx
                exact Or.inl ⟨x, hx', (hinst x hx').symm⟩
              · exact Or.inr ⟨hb, mem_sortDedup.mp h1, by rw [p8]; exact h2⟩
            · rintro (⟨p, hp, e⟩ | ⟨hb, h1, h2⟩)
              · rw [hinst p hp] at e; subst e
                exact Or.inl (mem_sortDedup.mpr hp)
              · exact Or.inr ⟨hb, mem_sortDedup.mpr h1, by rw [p8] at h2; exact h2⟩
        have pa := place_adj_exact ho _ _ _ _ _ _ h
        simp only at pa
        refine ⟨?_, ?_, ?_, ?_⟩
        · unfold DepsOK
          simp only [hused', List.isEmpty_nil, ↓reduceIte]
          intro x
          rw [p1]
          exact hw x
        · intro k hk x
          have : k ≠ st.name := by
            intro e; apply hk; unfold InstNameOf; simp [hused', e]
          exact p2 k this x
        · intro k hk
          rw [p7, p8]
          exact ⟨getAssoc_setAssoc_ne _ _ _ _ hk, by
            rw [getAssoc_setAssoc_ne _ _ _ _ hk, getAssoc_setAssoc_ne _ _ _ _ hk]⟩
        · intro k x hx
          rcases (pa k x).mp hx with h1 | ⟨e1, e2, e3⟩
          · exact Or.inl h1
          · refine Or.inr ⟨fun hk => e3 (hk.trans e1), ?_⟩
            unfold AdjWitness
            simp only [hused', List.isEmpty_nil, ↓reduceIte]
            exact ⟨e1, (hw k).mp e2⟩
    · -- one instance per row
      rename_i hu
      have hu' : used.isEmpty = false := by simpa using hu
      have hkey : (setAssoc s.combos st.name []).any (·.1 == st.name) = true := by
        rw [any_key_setAssoc]; simp
      have hnew : ∀ row, row ∈ List.range (nRows spec.params) →
          (setAssoc s.combos st.name []).any (·.1 == instName st.name used (combo spec.params row)) = false := by
        intro row _
        cases hany : (setAssoc s.combos st.name []).any (·.1 == instName st.name used (combo spec.params row)) with
        | false => rfl
        | true =>
          exfalso
          apply hc st hst used row hu'
          rw [any_key_setAssoc] at hany
          rcases Bool.or_eq_true _ _ |>.mp hany with e | e
          · exact hkeys _ e
          · have : st.name = instName st.name used (combo spec.params row) := by simpa using e
            rw [← this]; exact hname
      obtain ⟨b1, b2, b3, b4, b5⟩ := rows_deps spec ho st used hself (setAssoc s.used st.name used)
        (setAssoc s.combos st.name []) (List.range (nRows spec.params))
        { s with hub := setAssoc s.hub st.name (sortDedup (hubOf st)),
                 depends := setAssoc s.depends st.name (sortDedup (depsOf st)),
                 used := setAssoc s.used st.name used,
                 combos := setAssoc s.combos st.name [] } s' hkey hnew rfl (fun hb _ => rfl) h
      simp only at b2 b3 b4 b5
      have hused' : getAssoc s'.used st.name = used := by rw [b3, getAssoc_setAssoc_self]
      refine ⟨?_, ?_, ?_, ?_⟩
      rotate_left 3
      · intro k x hx
        rcases b5 k x hx with h1 | ⟨row, hr, e1, e2, e3⟩
        · exact Or.inl h1
        · refine Or.inr ⟨e3, ?_⟩
          unfold AdjWitness
          simp only [hused', hu', Bool.false_eq_true, ↓reduceIte]
          refine ⟨row, List.mem_range.mp hr, e1, ?_⟩
          apply (owed_congr spec st row (fun p _ => by rw [b3]) (fun hb hhb => ?_) k).mpr e2
          exact b4 hb (fun e => hself (e ▸ hhb))
      · unfold DepsOK
        simp only [hused', hu', Bool.false_eq_true, ↓reduceIte]
        intro row hrow
        obtain ⟨row', m1, m2, m3⟩ := b1 row (List.mem_range.mpr hrow)
        refine ⟨row', List.mem_range.mp m1, m2, fun x => ?_⟩
        rw [m3 x]
        apply (owed_congr spec st row' (fun p _ => by rw [b3]) (fun hb hhb => ?_) x).symm
        exact b4 hb (fun e => hself (e ▸ hhb))
      · intro k hk x
        apply b2 k
        intro row hrow e
        apply hk
        unfold InstNameOf
        simp only [hused', hu', Bool.false_eq_true, ↓reduceIte]
        exact ⟨row, List.mem_range.mp hrow, e.symm⟩
      · intro k hk
        rw [b3]
        exact ⟨getAssoc_setAssoc_ne _ _ _ _ hk, by rw [b4 k hk, getAssoc_setAssoc_ne _ _ _ _ hk]⟩

end MaestroVerif.Expand
