import MaestroVerif.Lemmas.ExpandComplete
import MaestroVerif.Lemmas.DagEdge
import MaestroVerif.Lemmas.DagTopo

/-!
# Every step of the specification is staged (C08, resting on C14)

The abstract flow built by `Study.add_step` is a well-formed acyclic graph over the indices of the
step names (`buildFlow_ok`), so `topological_sort` lists every index (C14: `topoSort_spec`), so the
staging loop reaches every step: at the end every step name is a key of the used-parameter table.
-/
namespace MaestroVerif.Expand
open MaestroVerif.Subst MaestroVerif.Dag

theorem dag_addEdge_nodes (g : Dag) (a b : Nat) : (Dag.addEdge g a b).1.nodes = g.nodes := by
  unfold Dag.addEdge
  split
  · rfl
  · split
    · rfl
    · split
      · rfl
      · split
        · rfl
        · simp only
          split <;> rfl

/-- what `buildFlow` maintains -/
structure FlowOK (f : Flow) : Prop where
  wf : WF f.dag
  acyclic : Acyclic f.dag
  nodes : f.dag.nodes = List.range f.names.length
  filed : ∀ n, n ∈ f.names → n = SOURCE ∨ f.steps.any (·.1 == n) = true
  namesNodup : f.names.Nodup

theorem flowOK_addNode {f : Flow} (h : FlowOK f) (n : Str) (st : Step) :
    FlowOK (f.addNode n (some st)) ∧ n ∈ (f.addNode n (some st)).names ∧
    ∀ m, m ∈ f.names → m ∈ (f.addNode n (some st)).names := by
  unfold Flow.addNode
  split
  · rename_i hc
    exact ⟨h, by simpa using hc, fun m hm => hm⟩
  · rename_i hc
    refine ⟨⟨wf_addNode h.wf _, acyclic_addNode h.wf h.acyclic _, ?_, ?_, ?_⟩, by simp, fun m hm => by simp [hm]⟩
    · simp only [Dag.addNode, h.nodes, List.mem_range, Nat.lt_irrefl, ↓reduceIte, List.length_append,
        List.length_cons, List.length_nil, Nat.zero_add, List.range_succ]
    rotate_left
    · rw [List.nodup_append]
      refine ⟨h.namesNodup, by simp, ?_⟩
      intro a ha b hb
      simp only [List.mem_singleton] at hb
      subst hb
      intro e; subst e
      exact hc (by simpa using ha)
    · intro m hm
      simp only [List.mem_append, List.mem_singleton] at hm
      rcases hm with hm | hm
      · rcases h.filed m hm with e | e
        · exact Or.inl e
        · right; simp [List.any_append, e]
      · subst hm; right; simp [List.any_append]

theorem flowOK_addEdge {f f' : Flow} {a b : Str} (h : FlowOK f) (he : f.addEdge a b = .ok f') :
    FlowOK f' ∧ f'.names = f.names := by
  unfold Flow.addEdge at he
  split at he
  · cases he; exact ⟨h, rfl⟩
  · split at he
    · cases he
    · split at he
      · cases he; exact ⟨h, rfl⟩
      · simp only at he
        split at he
        · cases he
          refine ⟨⟨wf_addEdge h.wf _ _, acyclic_addEdge h.wf h.acyclic _ _, ?_, h.filed, h.namesNodup⟩, rfl⟩
          simp only [dag_addEdge_nodes, h.nodes]
        · cases he
        · cases he
        · cases he

/-- one step of `buildFlow` -/
def flowStep (acc : Except Err Flow) (st : Step) : Except Err Flow :=
  match acc with
  | .error e => .error e
  | .ok f =>
    let f := f.addNode st.name (some st)
    if st.depends.isEmpty then f.addEdge SOURCE st.name
    else st.depends.foldl (fun acc d =>
      match acc with
      | .error e => .error e
      | .ok f => f.addEdge (if d.contains '*' then stripCombos d else d) st.name) (.ok f)

theorem buildFlow_eq (steps : List Step) :
    buildFlow steps = steps.foldl flowStep
      (.ok (({ names := [], dag := Dag.empty, steps := [] } : Flow).addNode SOURCE none)) := rfl

theorem depFold_ok (nm : Str) : ∀ (ds : List Str) (f f' : Flow), FlowOK f →
    ds.foldl (fun (acc : Except Err Flow) d =>
      match acc with
      | .error e => .error e
      | .ok f => f.addEdge (if d.contains '*' then stripCombos d else d) nm) (.ok f) = .ok f' →
    FlowOK f' ∧ f'.names = f.names := by
  intro ds
  induction ds with
  | nil => intro f f' h he; simp only [List.foldl_nil, Except.ok.injEq] at he; subst he; exact ⟨h, rfl⟩
  | cons d ds ih =>
    intro f f' h he
    simp only [List.foldl_cons] at he
    cases h1 : f.addEdge (if d.contains '*' then stripCombos d else d) nm with
    | error e =>
      rw [h1] at he
      have : ∀ (l : List Str), l.foldl (fun (acc : Except Err Flow) d =>
          match acc with
          | .error e => .error e
          | .ok f => f.addEdge (if d.contains '*' then stripCombos d else d) nm) (.error e) = .error e := by
        intro l; induction l with
        | nil => rfl
        | cons x xs ihx => simp only [List.foldl_cons, ihx]
      rw [this] at he; cases he
    | ok f1 =>
      rw [h1] at he
      obtain ⟨a1, a2⟩ := flowOK_addEdge h h1
      obtain ⟨b1, b2⟩ := ih f1 f' a1 he
      exact ⟨b1, by rw [b2, a2]⟩

theorem flowStep_ok {f f' : Flow} {st : Step} (h : FlowOK f) (he : flowStep (.ok f) st = .ok f') :
    FlowOK f' ∧ st.name ∈ f'.names ∧ ∀ m, m ∈ f.names → m ∈ f'.names := by
  unfold flowStep at he
  simp only at he
  obtain ⟨a1, a2, a3⟩ := flowOK_addNode h st.name st
  split at he
  · obtain ⟨b1, b2⟩ := flowOK_addEdge a1 he
    exact ⟨b1, by rw [b2]; exact a2, fun m hm => by rw [b2]; exact a3 m hm⟩
  · obtain ⟨b1, b2⟩ := depFold_ok st.name _ _ _ a1 he
    exact ⟨b1, by rw [b2]; exact a2, fun m hm => by rw [b2]; exact a3 m hm⟩

theorem flowFold_error (l : List Step) (e : Err) : l.foldl flowStep (.error e) = .error e := by
  induction l with
  | nil => rfl
  | cons x xs ih => simp only [List.foldl_cons, flowStep, ih]

theorem flowFold_ok : ∀ (l : List Step) (f f' : Flow), FlowOK f → l.foldl flowStep (.ok f) = .ok f' →
    FlowOK f' ∧ (∀ m, m ∈ f.names → m ∈ f'.names) ∧ ∀ st, st ∈ l → st.name ∈ f'.names := by
  intro l
  induction l with
  | nil =>
    intro f f' h he
    simp only [List.foldl_nil, Except.ok.injEq] at he; subst he
    exact ⟨h, fun m hm => hm, fun st hst => by cases hst⟩
  | cons x xs ih =>
    intro f f' h he
    simp only [List.foldl_cons] at he
    cases h1 : flowStep (.ok f) x with
    | error e => rw [h1, flowFold_error] at he; cases he
    | ok f1 =>
      rw [h1] at he
      obtain ⟨a1, a2, a3⟩ := flowStep_ok h h1
      obtain ⟨b1, b2, b3⟩ := ih f1 f' a1 he
      refine ⟨b1, fun m hm => b2 m (a3 m hm), ?_⟩
      intro st hst
      rcases List.mem_cons.mp hst with e | e
      · subst e; exact b2 _ a2
      · exact b3 st e

/-- **the abstract flow is a well-formed acyclic graph over the indices of the names, and holds the
name of every step** -/
theorem buildFlow_ok (steps : List Step) (f : Flow) (h : buildFlow steps = .ok f) :
    FlowOK f ∧ ∀ st, st ∈ steps → st.name ∈ f.names := by
  rw [buildFlow_eq] at h
  have h0 : FlowOK (({ names := [], dag := Dag.empty, steps := [] } : Flow).addNode SOURCE none) := by
    refine ⟨?_, ?_, ?_, ?_, ?_⟩
    · exact wf_addNode wf_empty _
    · exact acyclic_addNode wf_empty (by
        intro a hp
        obtain ⟨c, e, _⟩ := Relation.TransGen.head'_iff.mp hp
        simp [Edge, Dag.empty] at e) _
    · simp [Flow.addNode, Dag.addNode, Dag.empty]
    · intro n hn
      simp [Flow.addNode] at hn
      exact Or.inl hn
    · simp [Flow.addNode]
  obtain ⟨a1, _, a3⟩ := flowFold_ok steps _ f h0 h
  exact ⟨a1, a3⟩

/-! ### the staging loop reaches every index the topological order lists -/

/-- staging a step files it in the used-parameter table and keeps the other keys -/
theorem stageStep_used_keys (spec : Spec) (ord : List Str → List Str) (s s' : SS) (st : Step)
    (h : stageStep spec ord s st = .ok s') (k : Str) :
    s'.used.any (·.1 == k) = (s.used.any (·.1 == k) || st.name == k) := by
  unfold stageStep at h
  simp only at h
  split at h
  · cases h
  · rename_i used hused
    split at h
    · split at h
      · cases h
      · rw [place_used h]
        simp only [any_key_setAssoc]
    · have hkey : (setAssoc s.combos st.name []).any (·.1 == st.name) = true := by
        rw [any_key_setAssoc]; simp
      obtain ⟨_, _, b3, _⟩ := rows_node spec ord st used (List.range (nRows spec.params))
        { s with hub := setAssoc s.hub st.name (sortDedup (hubOf st)),
                 depends := setAssoc s.depends st.name (sortDedup (depsOf st)),
                 used := setAssoc s.used st.name used,
                 combos := setAssoc s.combos st.name [] } s' hkey h
      rw [b3]
      simp only [any_key_setAssoc]

theorem stageIdx_error (spec : Spec) (ord : List Str → List Str) (flow : Flow) (l : List Nat) (e : Err) :
    l.foldl (stageIdx spec ord flow) (.error e) = .error e := by
  induction l with
  | nil => rfl
  | cons x xs ih => simp only [List.foldl_cons, stageIdx, ih]

/-- one iteration: keys are kept; the name at `idx`, unless it is `_source`, is a key afterwards -/
theorem stageIdx_keys (spec : Spec) (ord : List Str → List Str) (flow : Flow)
    (hfs : FlowSteps spec.steps flow) (hok : FlowOK flow) (s s' : SS) (idx : Nat)
    (h : stageIdx spec ord flow (.ok s) idx = .ok s') :
    (∀ k, s.used.any (·.1 == k) = true → s'.used.any (·.1 == k) = true) ∧
    (∀ nm, flow.names[idx]? = some nm → nm ≠ SOURCE → s'.used.any (·.1 == nm) = true) := by
  simp only [stageIdx] at h
  split at h
  · rename_i hnone
    simp only [Except.ok.injEq] at h; subst h
    exact ⟨fun k hk => hk, fun nm hnm => by rw [hnone] at hnm; cases hnm⟩
  · rename_i nm hsome
    split at h
    · rename_i hsrc
      simp only [Except.ok.injEq] at h; subst h
      refine ⟨fun k hk => hk, fun nm' hnm' hne => ?_⟩
      rw [hsome] at hnm'
      simp only [Option.some.injEq] at hnm'
      subst hnm'
      exact absurd (by simpa using hsrc) hne
    · rename_i hnsrc
      split at h
      · rename_i hfind
        exfalso
        have hmem : nm ∈ flow.names := List.mem_of_getElem? hsome
        rcases hok.filed nm hmem with e | e
        · exact hnsrc (by simpa using e)
        · have := List.find?_eq_none.mp hfind
          simp only [List.any_eq_true] at e
          obtain ⟨x, hx, hxe⟩ := e
          exact this x hx hxe
      · rename_i p1 st hfind
        have hmem := List.mem_of_find?_eq_some hfind
        have hp : (p1 == nm) = true := by simpa using List.find?_some hfind
        have hname : st.name = nm := by
          have := (hfs _ hmem).2
          simp only at this
          rw [this]; simpa using hp
        have hk := stageStep_used_keys spec ord s s' st h
        refine ⟨fun k hk' => by rw [hk, hk']; rfl, fun nm' hnm' _ => ?_⟩
        rw [hsome] at hnm'
        simp only [Option.some.injEq] at hnm'
        subst hnm'
        rw [hk, hname]; simp

theorem stageLoop_keys (spec : Spec) (ord : List Str → List Str) (flow : Flow)
    (hfs : FlowSteps spec.steps flow) (hok : FlowOK flow) :
    ∀ (order : List Nat) (s sf : SS), order.foldl (stageIdx spec ord flow) (.ok s) = .ok sf →
      (∀ k, s.used.any (·.1 == k) = true → sf.used.any (·.1 == k) = true) ∧
      (∀ idx, idx ∈ order → ∀ nm, flow.names[idx]? = some nm → nm ≠ SOURCE →
        sf.used.any (·.1 == nm) = true) := by
  intro order
  induction order with
  | nil =>
    intro s sf h
    simp only [List.foldl_nil, Except.ok.injEq] at h; subst h
    exact ⟨fun k hk => hk, fun idx hidx => by cases hidx⟩
  | cons i is ih =>
    intro s sf h
    simp only [List.foldl_cons] at h
    cases h1 : stageIdx spec ord flow (.ok s) i with
    | error e => rw [h1, stageIdx_error] at h; cases h
    | ok s1 =>
      rw [h1] at h
      obtain ⟨a1, a2⟩ := stageIdx_keys spec ord flow hfs hok s s1 i h1
      obtain ⟨b1, b2⟩ := ih s1 sf h
      refine ⟨fun k hk => b1 k (a1 k hk), ?_⟩
      intro idx hidx nm hnm hne
      rcases List.mem_cons.mp hidx with e | e
      · subst e; exact b1 nm (a2 nm hnm hne)
      · exact b2 idx e nm hnm hne

/-- **every step of the specification is staged**: when staging succeeds, the name of every step
(no step being called `_source`, which the validator refuses) is a key of the used-parameter table
at the end - because the abstract flow is a well-formed acyclic graph holding every step name
(`buildFlow_ok`) and `topological_sort` lists every node of such a graph (C14, `topoSort_spec`) -/
theorem stageSS_all_staged (spec : Spec) (ord : List Str → List Str) (sf : SS)
    (h : stageSS spec ord = .ok sf) (hsrc : ∀ st, st ∈ spec.steps → st.name ≠ SOURCE) :
    ∀ st, st ∈ spec.steps → sf.used.any (·.1 == st.name) = true := by
  unfold stageSS at h
  split at h
  · cases h
  · rename_i flow hflow
    have hfs := buildFlow_steps _ _ hflow
    obtain ⟨hok, hnames⟩ := buildFlow_ok _ _ hflow
    split at h
    · cases h
    · rename_i order hts
      obtain ⟨_, hperm, _⟩ := topoSort_spec flow.dag hok.wf hok.acyclic hts
      obtain ⟨_, b2⟩ := stageLoop_keys spec ord flow hfs hok order _ sf h
      intro st hst
      have hm := hnames st hst
      obtain ⟨idx, hlt, hget⟩ := List.getElem_of_mem hm
      have hidx : idx ∈ order := by
        rw [hperm, hok.nodes]; exact List.mem_range.mpr hlt
      exact b2 idx hidx st.name (by rw [List.getElem?_eq_getElem hlt, hget]) (hsrc st hst)

end MaestroVerif.Expand
