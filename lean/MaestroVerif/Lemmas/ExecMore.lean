import MaestroVerif.Lemmas.ExecLedger

/-! Growth (monotonicity) of the resolved sets, where completion can come from,
the restart budget, and what a poll can append to the event log. -/
namespace MaestroVerif.Exec
open MaestroVerif.Gen

/-- the resolved sets only ever grow; `completed` grows only by `new` -/
structure Grow (g g' : G) : Prop where
  completed : ∀ x, x ∈ g.completed → x ∈ g'.completed
  failed    : ∀ x, x ∈ g.failed → x ∈ g'.failed
  cancelled : ∀ x, x ∈ g.cancelled → x ∈ g'.cancelled

theorem Grow.refl (g : G) : Grow g g := ⟨fun _ h => h, fun _ h => h, fun _ h => h⟩

theorem Grow.trans {g1 g2 g3 : G} (a : Grow g1 g2) (b : Grow g2 g3) : Grow g1 g3 :=
  ⟨fun x h => b.completed x (a.completed x h), fun x h => b.failed x (a.failed x h),
   fun x h => b.cancelled x (a.cancelled x h)⟩

theorem grow_markFailed (xs : List Nat) (g : G) : Grow g (markFailed xs g) := by
  have m := markFailed_spec xs g
  refine ⟨fun x h => by rw [m.completed]; exact h, fun x h => (m.failed x).mpr (Or.inr h),
    fun x h => by rw [m.cancelled]; exact h⟩

theorem grow_markCancelled (xs : List Nat) (g : G) : Grow g (markCancelled xs g) := by
  have m := markCancelled_spec xs g
  refine ⟨fun x h => by rw [m.completed]; exact h, fun x h => by rw [m.failed]; exact h,
    fun x h => (m.cancelled x).mpr (Or.inr h)⟩

/-- where new members of `completed` come from in `_execute_record` -/
theorem executeRecord_completed (cfg : Cfg) (g : G) (i : Nat) (restart : Bool) :
    Grow g (executeRecord cfg g i restart) ∧
    ∀ x, x ∈ (executeRecord cfg g i restart).completed →
      x ∈ g.completed ∨ (x = i ∧ (cfg.dry = true ∨ cfg.sched i = false)) := by
  obtain ⟨ec, ei, ef, ecn, er, ecl, ecq, es, eic, ers⟩ := execPrep_fields cfg g i restart
  unfold executeRecord
  simp only
  split
  · rename_i hd
    refine ⟨⟨?_, ?_, ?_⟩, ?_⟩ <;> simp only [dryMark, setStatus, mem_ins, ec, ef, ecn] <;> grind
  · have fr := submitLoop_frame cfg i restart cfg.attempts (execPrep cfg g i restart)
    generalize submitLoop cfg i restart cfg.attempts (execPrep cfg g i restart) = r at fr
    have c1 : r.1.completed = g.completed := by rw [fr.completed, ec]
    have c2 : r.1.failed = g.failed := by rw [fr.failed, ef]
    have c3 : r.1.cancelled = g.cancelled := by rw [fr.cancelled, ecn]
    unfold execFinish
    split
    · split
      · refine ⟨⟨?_, ?_, ?_⟩, ?_⟩ <;> simp only [c1, c2, c3] <;> grind
      · rename_i hs
        refine ⟨⟨?_, ?_, ?_⟩, ?_⟩ <;> simp only [setStatus, mem_ins, c1, c2, c3] <;> grind
    · rw [failSubtree_eq]
      have m := markFailed_spec (subtree cfg i) { r.1 with inProgress := rem i r.1.inProgress }
      refine ⟨⟨?_, ?_, ?_⟩, ?_⟩
      · intro x hx; rw [m.completed]; simpa [c1] using hx
      · intro x hx; rw [m.failed]; right; simpa [c2] using hx
      · intro x hx; rw [m.cancelled]; simpa [c3] using hx
      · intro x hx; rw [m.completed] at hx; left; simpa [c1] using hx

theorem report_completed (cfg : Cfg) (g : G) (i : Nat) (st : Option State) :
    Grow g (report cfg g i st) ∧
    ∀ x, x ∈ (report cfg g i st).completed →
      x ∈ g.completed ∨ (x = i ∧ (st = some .FINISHED ∨ cfg.dry = true ∨ cfg.sched i = false)) := by
  cases st with
  | none => exact ⟨by simpa [report, terminal] using Grow.refl g, fun x hx => Or.inl (by simpa [report, terminal] using hx)⟩
  | some s =>
    cases s
    case TIMEDOUT =>
      simp only [report, terminal, ↓reduceIte]
      split
      · split
        · have := executeRecord_completed cfg
            { setStatus { g with live := rem i g.live } i State.TIMEDOUT with
              restarts := upd g.restarts i (g.restarts i + 1) } i true
          refine ⟨⟨this.1.completed, this.1.failed, this.1.cancelled⟩, ?_⟩
          intro x hx
          rcases this.2 x hx with h | h
          · exact Or.inl h
          · exact Or.inr ⟨h.1, Or.inr h.2⟩
        · refine ⟨⟨?_, ?_, ?_⟩, ?_⟩ <;> simp [setStatus] <;> grind
      · refine ⟨⟨?_, ?_, ?_⟩, ?_⟩ <;> simp [setStatus] <;> grind
    all_goals (refine ⟨⟨?_, ?_, ?_⟩, ?_⟩ <;> simp [report, terminal, setStatus] <;> grind)

/-- completion during the report pass -/
theorem reports_completed (cfg : Cfg) : ∀ (rs : List (Nat × Option State)) (g : G),
    Grow g (rs.foldl (fun g r => report cfg g r.1 r.2) g) ∧
    ∀ x, x ∈ (rs.foldl (fun g r => report cfg g r.1 r.2) g).completed →
      x ∈ g.completed ∨ (x, some State.FINISHED) ∈ rs ∨ cfg.dry = true ∨ cfg.sched x = false := by
  intro rs
  induction rs with
  | nil => intro g; exact ⟨Grow.refl g, fun x h => Or.inl h⟩
  | cons r rs ih =>
    intro g
    simp only [List.foldl_cons]
    obtain ⟨g1, c1⟩ := report_completed cfg g r.1 r.2
    obtain ⟨g2, c2⟩ := ih (report cfg g r.1 r.2)
    refine ⟨g1.trans g2, ?_⟩
    intro x hx
    rcases c2 x hx with h | h | h | h
    · rcases c1 x h with h' | ⟨h1, h2 | h2 | h2⟩
      · exact Or.inl h'
      · right; left
        have : r = (x, some State.FINISHED) := by
          cases r; simp only at h1 h2; simp [h1, h2]
        simp [this]
      · exact Or.inr (Or.inr (Or.inl h2))
      · subst h1; exact Or.inr (Or.inr (Or.inr h2))
    · exact Or.inr (Or.inl (by simp [h]))
    · exact Or.inr (Or.inr (Or.inl h))
    · exact Or.inr (Or.inr (Or.inr h))

theorem sweeps_completed (g : G) :
    Grow g (sweeps g) ∧ (sweeps g).completed = g.completed := by
  rw [sweeps_eq]
  have mf := markFailed_spec g.cleanup g
  have mc := markCancelled_spec g.cancelQ (markFailed g.cleanup g)
  refine ⟨⟨?_, ?_, ?_⟩, ?_⟩
  · intro x hx; simp only [mc.completed, mf.completed]; exact hx
  · intro x hx; simp only [mc.failed]; exact (mf.failed x).mpr (Or.inr hx)
  · intro x hx; simp only; exact (mc.cancelled x).mpr (Or.inr (by rw [mf.cancelled]; exact hx))
  · simp only [mc.completed, mf.completed]

theorem stageOne_sets (g : G) (key : Nat) :
    (stageOne g key).completed = g.completed ∧ (stageOne g key).failed = g.failed ∧
    (stageOne g key).cancelled = g.cancelled ∧ (stageOne g key).log = g.log ∧
    (stageOne g key).restarts = g.restarts ∧ (stageOne g key).status = g.status := by
  unfold stageOne
  split
  · simp
  · split
    · simp only
      split
      · split <;> simp
      · simp
    · simp

theorem stage_sets (cfg : Cfg) (g : G) :
    (stage cfg g).completed = g.completed ∧ (stage cfg g).failed = g.failed ∧
    (stage cfg g).cancelled = g.cancelled ∧ (stage cfg g).log = g.log ∧
    (stage cfg g).restarts = g.restarts ∧ (stage cfg g).status = g.status := by
  unfold stage
  generalize List.range (cfg.n + 1) = keys
  induction keys generalizing g with
  | nil => simp
  | cons k ks ih =>
    simp only [List.foldl_cons]
    obtain ⟨a1, a2, a3, a4, a5, a6⟩ := stageOne_sets g k
    obtain ⟨b1, b2, b3, b4, b5, b6⟩ := ih (stageOne g k)
    exact ⟨b1.trans a1, b2.trans a2, b3.trans a3, b4.trans a4, b5.trans a5, b6.trans a6⟩

theorem launch_completed (cfg : Cfg) : ∀ (k : Nat) (g : G),
    Grow g (launch cfg k g) ∧
    ∀ x, x ∈ (launch cfg k g).completed →
      x ∈ g.completed ∨ cfg.dry = true ∨ cfg.sched x = false := by
  intro k
  induction k with
  | zero => intro g; exact ⟨Grow.refl g, fun x h => Or.inl h⟩
  | succ k ih =>
    intro g
    unfold launch
    split
    · exact ⟨Grow.refl g, fun x h => Or.inl h⟩
    · rename_i i rest _
      simp only
      split
      · obtain ⟨g2, c2⟩ := ih (setStatus { g with ready := rest, cancelled := ins i g.cancelled } i .CANCELLED)
        refine ⟨⟨fun x h => g2.completed x (by simpa [setStatus] using h),
          fun x h => g2.failed x (by simpa [setStatus] using h),
          fun x h => g2.cancelled x (by simp [setStatus, h])⟩, ?_⟩
        intro x hx
        rcases c2 x hx with h | h
        · left; simpa [setStatus] using h
        · exact Or.inr h
      · obtain ⟨g1, c1⟩ := executeRecord_completed cfg { g with ready := rest } i false
        obtain ⟨g2, c2⟩ := ih (executeRecord cfg { g with ready := rest } i false)
        refine ⟨⟨fun x h => g2.completed x (g1.completed x h), fun x h => g2.failed x (g1.failed x h),
          fun x h => g2.cancelled x (g1.cancelled x h)⟩, ?_⟩
        intro x hx
        rcases c2 x hx with h | h
        · rcases c1 x h with h' | ⟨h1, h2⟩
          · exact Or.inl h'
          · subst h1; exact Or.inr h2
        · exact Or.inr h

theorem emit_sets (g : G) (e : Ev) : Grow g (emit g e) ∧ (emit g e).completed = g.completed :=
  ⟨⟨fun _ h => h, fun _ h => h, fun _ h => h⟩, rfl⟩

/-- **resolved sets only grow over a poll, and a step enters `completed` only
on a FINISHED report, a successful local run, or in a dry run** -/
theorem poll_completed (cfg : Cfg) (g : G) (p : PollIn) :
    Grow g (poll cfg g p).1 ∧
    ∀ x, x ∈ (poll cfg g p).1.completed →
      x ∈ g.completed ∨ (p.code = .OK ∧ (x, some State.FINISHED) ∈ p.reports) ∨
        cfg.dry = true ∨ cfg.sched x = false := by
  unfold poll
  simp only
  by_cases hd : cfg.dry = true
  · simp only [hd, ↓reduceIte]
    obtain ⟨s1, s2, s3, _⟩ := stage_sets cfg g
    obtain ⟨l1, l2⟩ := launch_completed cfg (available cfg (stage cfg g)) (stage cfg g)
    refine ⟨⟨fun x h => l1.completed x (by rw [s1]; exact h), fun x h => l1.failed x (by rw [s2]; exact h),
      fun x h => l1.cancelled x (by rw [s3]; exact h)⟩, fun x _ => Or.inr (Or.inr (Or.inl trivial))⟩
  · have hd' : cfg.dry = false := by simpa using hd
    simp only [hd', Bool.false_eq_true, ↓reduceIte]
    cases hc : p.code with
    | ERROR => simp only; exact ⟨(emit_sets g _).1, fun x h => Or.inl h⟩
    | NOJOBS =>
      simp only
      obtain ⟨s1, s2, s3, _⟩ := stage_sets cfg (emit g (Ev.check g.inProgress))
      obtain ⟨l1, l2⟩ := launch_completed cfg (available cfg (stage cfg (emit g (Ev.check g.inProgress))))
        (stage cfg (emit g (Ev.check g.inProgress)))
      refine ⟨⟨fun x h => l1.completed x (by rw [s1]; exact h),
        fun x h => l1.failed x (by rw [s2]; exact h),
        fun x h => l1.cancelled x (by rw [s3]; exact h)⟩, ?_⟩
      intro x hx
      rcases l2 x hx with h | h
      · left; rw [s1] at h; exact h
      · exact Or.inr (Or.inr (Or.inr (h.resolve_left (by simp [hd']))))
    | OK =>
      simp only
      obtain ⟨r1, r2⟩ := reports_completed cfg p.reports (emit g (Ev.check g.inProgress))
      obtain ⟨w1, w2⟩ := sweeps_completed (p.reports.foldl (fun g r => report cfg g r.1 r.2)
        (emit g (Ev.check g.inProgress)))
      obtain ⟨s1, s2, s3, _⟩ := stage_sets cfg (sweeps (p.reports.foldl
        (fun g r => report cfg g r.1 r.2) (emit g (Ev.check g.inProgress))))
      obtain ⟨l1, l2⟩ := launch_completed cfg (available cfg (stage cfg (sweeps (p.reports.foldl
        (fun g r => report cfg g r.1 r.2) (emit g (Ev.check g.inProgress))))))
        (stage cfg (sweeps (p.reports.foldl
        (fun g r => report cfg g r.1 r.2) (emit g (Ev.check g.inProgress)))))
      refine ⟨⟨?_, ?_, ?_⟩, ?_⟩
      · intro x h; apply l1.completed; rw [s1]; exact w1.completed x (r1.completed x h)
      · intro x h; apply l1.failed; rw [s2]; exact w1.failed x (r1.failed x h)
      · intro x h; apply l1.cancelled; rw [s3]; exact w1.cancelled x (r1.cancelled x h)
      · intro x hx
        rcases l2 x hx with h | h
        · rw [s1, w2] at h
          rcases r2 x h with h' | h' | h'
          · exact Or.inl h'
          · exact Or.inr (Or.inl ⟨trivial, h'⟩)
          · exact Or.inr (Or.inr (Or.inr (h'.resolve_left (by simp [hd']))))
        · exact Or.inr (Or.inr (Or.inr (h.resolve_left (by simp [hd']))))

/-! ### restart budget -/

def Budget (cfg : Cfg) (g : G) : Prop := ∀ i, 0 < cfg.rlimit i → g.restarts i ≤ cfg.rlimit i

theorem budget_report {cfg : Cfg} {g : G} (h : Budget cfg g) (i : Nat) (st : Option State) :
    Budget cfg (report cfg g i st) := by
  cases st with
  | none => simpa [report, terminal] using h
  | some s =>
    cases s
    case TIMEDOUT =>
      simp only [report, terminal, ↓reduceIte]
      split
      · split
        · rename_i hcan
          have hcan' : cfg.rlimit i = 0 ∨ g.restarts i < cfg.rlimit i := by
            have := hcan
            simp only [canConsumeRestart, setStatus, Bool.or_eq_true, beq_iff_eq] at this
            rcases this with h' | h'
            · exact Or.inl h'
            · exact Or.inr (of_decide_eq_true h')
          intro j hj
          rw [(executeRecord_frame cfg _ i true).2.2.2.2.2.1]
          simp only [setStatus, upd]
          split
          · subst_vars; omega
          · exact h j hj
        · intro j hj; simpa [setStatus] using h j hj
      · intro j hj; simpa [setStatus] using h j hj
    all_goals (intro j hj; simpa [report, terminal, setStatus] using h j hj)

theorem budget_reports {cfg : Cfg} : ∀ (rs : List (Nat × Option State)) (g : G), Budget cfg g →
    Budget cfg (rs.foldl (fun g r => report cfg g r.1 r.2) g) := by
  intro rs
  induction rs with
  | nil => intro g h; exact h
  | cons r rs ih => intro g h; simp only [List.foldl_cons]; exact ih _ (budget_report h r.1 r.2)

theorem launch_restarts (cfg : Cfg) : ∀ (k : Nat) (g : G), (launch cfg k g).restarts = g.restarts := by
  intro k
  induction k with
  | zero => intro g; rfl
  | succ k ih =>
    intro g
    unfold launch
    split
    · rfl
    · simp only
      split
      · rw [ih]; simp [setStatus]
      · rw [ih, (executeRecord_frame cfg _ _ false).2.2.2.2.2.1]

theorem budget_poll {cfg : Cfg} {g : G} (h : Budget cfg g) (p : PollIn) :
    Budget cfg (poll cfg g p).1 := by
  unfold poll
  simp only
  have hsw : ∀ g : G, (sweeps g).restarts = g.restarts := by
    intro g; rw [sweeps_eq]
    have mf := markFailed_spec g.cleanup g
    have mc := markCancelled_spec g.cancelQ (markFailed g.cleanup g)
    simp only [mc.restarts, mf.restarts]
  by_cases hd : cfg.dry = true
  · simp only [hd, ↓reduceIte]
    intro j hj; rw [launch_restarts, (stage_sets cfg g).2.2.2.2.1]; exact h j hj
  · have hd' : cfg.dry = false := by simpa using hd
    simp only [hd', Bool.false_eq_true, ↓reduceIte]
    cases hc : p.code with
    | ERROR => simp only; intro j hj; simpa [emit] using h j hj
    | NOJOBS =>
      simp only
      intro j hj; rw [launch_restarts, (stage_sets cfg _).2.2.2.2.1]; simpa [emit] using h j hj
    | OK =>
      simp only
      intro j hj
      rw [launch_restarts, (stage_sets cfg _).2.2.2.2.1, hsw]
      exact budget_reports p.reports (emit g (Ev.check g.inProgress))
        (by intro j hj; simpa [emit] using h j hj) j hj

theorem budget_reachable {cfg : Cfg} {g : G} (h : Reachable cfg g) : Budget cfg g := by
  induction h with
  | init => intro i _; simp [init]
  | poll p _ _ ih => exact budget_poll ih p
  | cancel _ ih => intro j hj; simpa [cancel, emit] using ih j hj

end MaestroVerif.Exec
