import MaestroVerif.Lemmas.ExpandInv

/-! What one placement leaves alone (`place_insts`, `place_used`), a fold lemma that knows which
element it is at, and the steps held by the abstract flow (`buildFlow_steps`: they are steps of the
specification, filed under their own names). -/
namespace MaestroVerif.Expand
open MaestroVerif.Subst

theorem place_insts {ord : List Str → List Str} {s s' : SS} {inst : Inst} {isRoot : Bool}
    {parents hubD : List Str} (h : place ord s inst isRoot parents hubD = .ok s') :
    s'.g.insts = s.g.insts ∨ s'.g.insts = s.g.insts ++ [inst] := by
  unfold place at h
  split at h
  · cases h
  · rename_i g hw
    simp only [Except.ok.injEq] at h
    subst h
    have := wire_insts _ _ _ _ _ _ _ hw
    simp only [this]
    unfold XG.addStep
    simp only
    split
    · left; rfl
    · right; rfl

theorem place_used {ord : List Str → List Str} {s s' : SS} {inst : Inst} {isRoot : Bool}
    {parents hubD : List Str} (h : place ord s inst isRoot parents hubD = .ok s') : s'.used = s.used := by
  unfold place at h
  split at h
  · cases h
  · simp only [Except.ok.injEq] at h; subst h; rfl

theorem stageRow_used {spec : Spec} (ord : List Str → List Str) (st : Step) (used : List Str) (s s' : SS)
    (row : Nat) (h : stageRow spec ord st used s row = .ok s') : s'.used = s.used := by
  unfold stageRow at h
  simp only at h
  split at h
  · simp only [Except.ok.injEq] at h; subst h; rfl
  · split at h
    · cases h
    · have := place_used h; exact this

theorem foldl_except_inv_mem {α : Type} (Q : SS → Prop) (f : Except Err SS → α → Except Err SS)
    (l : List α)
    (hf : ∀ a x s', x ∈ l → (∀ s, a = .ok s → Q s) → f a x = .ok s' → Q s') :
    ∀ (m : List α), (∀ x, x ∈ m → x ∈ l) → ∀ (a : Except Err SS) (s' : SS),
      (∀ s, a = .ok s → Q s) → m.foldl f a = .ok s' → Q s' := by
  intro m
  induction m with
  | nil => intro _ a s' ha h; exact ha s' h
  | cons x xs ih =>
    intro hm a s' ha h
    simp only [List.foldl_cons] at h
    apply ih (fun y hy => hm y (by simp [hy])) (f a x) s' _ h
    intro s hs
    exact hf a x s (hm x (by simp)) ha hs

/-! ### the steps that are staged are steps of the specification -/

def FlowSteps (steps : List Step) (f : Flow) : Prop := ∀ p, p ∈ f.steps → p.2 ∈ steps ∧ p.2.name = p.1

theorem addEdge_steps {f f' : Flow} {a b : Str} (h : f.addEdge a b = .ok f') : f'.steps = f.steps := by
  unfold Flow.addEdge at h
  split at h
  · cases h; rfl
  · split at h
    · cases h
    · split at h
      · cases h; rfl
      · simp only at h
        split at h
        · cases h; rfl
        · cases h
        · cases h
        · cases h

theorem buildFlow_steps (steps : List Step) (f : Flow) (h : buildFlow steps = .ok f) : FlowSteps steps f := by
  unfold buildFlow at h
  suffices H : ∀ (l : List Step) (a : Except Err Flow) (f : Flow),
      (∀ x, x ∈ l → x ∈ steps) → (∀ f0, a = .ok f0 → FlowSteps steps f0) →
      l.foldl (fun acc st =>
        match acc with
        | .error e => .error e
        | .ok f =>
          let f := f.addNode st.name (some st)
          if st.depends.isEmpty then f.addEdge SOURCE st.name
          else st.depends.foldl (fun acc d =>
            match acc with
            | .error e => .error e
            | .ok f => f.addEdge (if d.contains '*' then stripCombos d else d) st.name) (.ok f)) a = .ok f →
      FlowSteps steps f by
    refine H steps _ f (fun x hx => hx) ?_ h
    intro f0 hf0
    simp only [Except.ok.injEq] at hf0
    subst hf0
    intro p hp
    simp [Flow.addNode] at hp
  intro l
  induction l with
  | nil =>
    intro a f _ ha h
    exact ha f h
  | cons st l ih =>
    intro a f hl ha h
    simp only [List.foldl_cons] at h
    refine ih _ f (fun x hx => hl x (by simp [hx])) ?_ h
    intro f1 hf1
    cases a with
    | error e => simp at hf1
    | ok fa =>
      have hfa := ha fa rfl
      have hnode : FlowSteps steps (fa.addNode st.name (some st)) := by
        unfold Flow.addNode
        split
        · exact hfa
        · intro p hp
          simp only [List.mem_append, List.mem_singleton] at hp
          rcases hp with hp | hp
          · exact hfa p hp
          · subst hp; exact ⟨hl st (by simp), rfl⟩
      simp only at hf1
      split at hf1
      · intro p hp
        rw [addEdge_steps hf1] at hp
        exact hnode p hp
      · -- the fold over the dependencies keeps the steps
        have : ∀ (ds : List Str) (acc : Except Err Flow) (f2 : Flow),
            (∀ f0, acc = .ok f0 → FlowSteps steps f0) →
            ds.foldl (fun acc d =>
              match acc with
              | .error e => .error e
              | .ok f => f.addEdge (if d.contains '*' then stripCombos d else d) st.name) acc = .ok f2 →
            FlowSteps steps f2 := by
          intro ds
          induction ds with
          | nil => intro acc f2 hacc h2; exact hacc f2 h2
          | cons d ds ihd =>
            intro acc f2 hacc h2
            simp only [List.foldl_cons] at h2
            refine ihd _ f2 ?_ h2
            intro f0 hf0
            cases acc with
            | error e => simp at hf0
            | ok fb =>
              simp only at hf0
              intro p hp
              rw [addEdge_steps hf0] at hp
              exact hacc fb rfl p hp
        exact this _ _ f1 (fun f0 hf0 => by simp only [Except.ok.injEq] at hf0; subst hf0; exact hnode) hf1

end MaestroVerif.Expand
