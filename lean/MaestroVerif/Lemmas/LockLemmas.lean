import MaestroVerif.Model.Lock

namespace MaestroVerif.Lock

structure LInv (s : S) : Prop where
  torn   : s.file = .torn → s.holder = some .writer ∧ s.wpc = 2
  wheld  : 1 ≤ s.wpc → s.holder = some .writer
  wpcB   : s.wpc ≤ 4
  rheld  : 2 ≤ s.rpc → s.holder = some .reader
  rpcB   : s.rpc ≤ 5
  rseen  : 1 ≤ s.rpc → s.file ≠ .absent
  reads  : ∀ f, f ∈ s.reads → ∃ v, f = .complete v

theorem linv_init : LInv init := by
  constructor <;> simp [init]

theorem linv_step {s s' : S} (h : LInv s) (a : Actor) (c : Choice) (hs : step s a c = some s') :
    LInv s' := by
  obtain ⟨h1, h2, h3, h4, h5, h6, h7⟩ := h
  have hread : ∀ f, f ∈ s.reads ++ [s.file] → 2 ≤ s.rpc → ∃ v, f = File.complete v := by
    intro f hf hr
    simp only [List.mem_append, List.mem_singleton] at hf
    rcases hf with hf | hf
    · exact h7 f hf
    · subst hf
      have hh := h4 hr
      cases hfile : s.file with
      | absent => exact absurd hfile (h6 (by omega))
      | complete v => exact ⟨v, rfl⟩
      | torn => have := (h1 hfile).1; rw [hh] at this; cases this
  cases a with
  | writer =>
    simp only [step] at hs
    split at hs
    · cases c with
      | timeout =>
        simp only [Option.some.injEq] at hs; subst hs
        exact ⟨h1, h2, h3, h4, h5, h6, h7⟩
      | go =>
        simp only at hs
        split at hs
        · cases hs
        · rename_i hw hh
          simp only [Option.some.injEq] at hs; subst hs
          have hn : s.holder = none := by simpa using hh
          refine ⟨?_, fun _ => rfl, by simp, ?_, h5, h6, h7⟩
          · intro ht; have := (h1 ht).2; simp only at *; omega
          · intro hr; have := h4 hr; rw [hn] at this; cases this
    · rename_i hw
      simp only [Option.some.injEq] at hs; subst hs
      have hh := h2 (by omega)
      refine ⟨fun _ => ⟨hh, rfl⟩, fun _ => hh, by simp, ?_, h5, ?_, h7⟩
      · intro hr; have := h4 hr; rw [hh] at this; cases this
      · intro _; simp
    · rename_i hw
      simp only [Option.some.injEq] at hs; subst hs
      have hh := h2 (by omega)
      refine ⟨?_, fun _ => hh, by simp, h4, h5, ?_, h7⟩
      · intro ht; simp at ht
      · intro _; simp
    · rename_i hw
      simp only [Option.some.injEq] at hs; subst hs
      have hh := h2 (by omega)
      refine ⟨?_, fun _ => hh, by simp, h4, h5, h6, h7⟩
      intro ht; have := (h1 ht).2; omega
    · rename_i hw0 hw1 hw2 hw3
      simp only [Option.some.injEq] at hs; subst hs
      have hw : s.wpc = 4 := by
        have e0 : s.wpc ≠ 0 := hw0
        have e1 : s.wpc ≠ 1 := hw1
        have e2 : s.wpc ≠ 2 := hw2
        have e3 : s.wpc ≠ 3 := hw3
        omega
      have hh := h2 (by omega)
      refine ⟨?_, ?_, by simp, ?_, h5, h6, h7⟩
      · intro ht; have := (h1 ht).2; omega
      · intro hc; simp at hc
      · intro hr; have := h4 hr; rw [hh] at this; cases this
  | reader =>
    simp only [step] at hs
    split at hs
    · split at hs
      · simp only [Option.some.injEq] at hs; subst hs
        exact ⟨h1, h2, h3, h4, h5, h6, h7⟩
      · rename_i hr hf
        simp only [Option.some.injEq] at hs; subst hs
        refine ⟨h1, h2, h3, ?_, by simp, ?_, h7⟩
        · intro hc; simp at hc
        · intro _; simpa using hf
    · cases c with
      | timeout =>
        simp only [Option.some.injEq] at hs; subst hs
        refine ⟨h1, h2, h3, ?_, by simp, ?_, h7⟩
        · intro hc; simp at hc
        · intro hc; simp at hc
      | go =>
        simp only at hs
        split at hs
        · cases hs
        · rename_i hr hh
          simp only [Option.some.injEq] at hs; subst hs
          have hn : s.holder = none := by simpa using hh
          refine ⟨?_, ?_, h3, fun _ => rfl, by simp, ?_, h7⟩
          · intro ht; have := (h1 ht).1; rw [hn] at this; cases this
          · intro hw; have := h2 hw; rw [hn] at this; cases this
          · intro _; exact h6 (by omega)
    · rename_i hr
      simp only [Option.some.injEq] at hs; subst hs
      have hh := h4 (by omega)
      exact ⟨h1, h2, h3, fun _ => hh, by simp, fun _ => h6 (by omega), h7⟩
    · rename_i hr
      simp only [Option.some.injEq] at hs; subst hs
      have hh := h4 (by omega)
      exact ⟨h1, h2, h3, fun _ => hh, by simp, fun _ => h6 (by omega),
        fun f hf => hread f hf (by omega)⟩
    · rename_i hr
      simp only [Option.some.injEq] at hs; subst hs
      have hh := h4 (by omega)
      exact ⟨h1, h2, h3, fun _ => hh, by simp, fun _ => h6 (by omega), h7⟩
    · rename_i hr0 hr1 hr2 hr3 hr4
      simp only [Option.some.injEq] at hs; subst hs
      have hr : s.rpc = 5 := by
        have e0 : s.rpc ≠ 0 := hr0
        have e1 : s.rpc ≠ 1 := hr1
        have e2 : s.rpc ≠ 2 := hr2
        have e3 : s.rpc ≠ 3 := hr3
        have e4 : s.rpc ≠ 4 := hr4
        omega
      have hh := h4 (by omega)
      refine ⟨?_, ?_, h3, ?_, by simp, ?_, h7⟩
      · intro ht; have := (h1 ht).1; rw [hh] at this; cases this
      · intro hw; have := h2 hw; rw [hh] at this; cases this
      · intro hc; simp at hc
      · intro hc; simp at hc

theorem linv_run : ∀ (sched : List (Actor × Choice)) (s : S), LInv s → LInv (run s sched) := by
  intro sched
  induction sched with
  | nil => intro s h; exact h
  | cons x xs ih =>
    intro s h
    obtain ⟨a, c⟩ := x
    simp only [run]
    cases hs : step s a c with
    | none => exact ih s h
    | some s' => exact ih s' (linv_step h a c hs)

end MaestroVerif.Lock
