import MaestroVerif.Lemmas.DagCycle

/-! Correctness of the model of `topological_sort` / `_topological_sort`. -/
namespace MaestroVerif.Dag
open Relation

variable (g : Dag)

/-- every element's children occur strictly later in the list -/
def TopoOK : List Nat → Prop
  | [] => True
  | x :: rest => (∀ c, c ∈ g.adj x → c ∈ rest) ∧ TopoOK rest

/-- visited but not yet pushed: on the recursion stack -/
def Active (s : TS) (x : Nat) : Prop := x ∈ s.visited ∧ x ∉ s.stack

structure TInv (s : TS) : Prop where
  sub   : ∀ x, x ∈ s.stack → x ∈ s.visited
  topo  : TopoOK g s.stack
  nodup : s.stack.Nodup
  inN   : ∀ x, x ∈ s.visited → x ∈ g.nodes

def TVisit (fuel : Nat) : Prop :=
  ∀ v s s', TInv g s → v ∈ g.nodes → v ∉ s.visited → (∀ a, Active s a → Reach g a v) →
    tsVisit g fuel v s = some s' →
    TInv g s' ∧ (∀ x, Active s' x ↔ Active s x) ∧ v ∈ s'.stack ∧
      (∀ x, x ∈ s.visited → x ∈ s'.visited) ∧ (∀ x, x ∈ s.stack → x ∈ s'.stack)

def TChildren (fuel : Nat) : Prop :=
  ∀ v es t t', TInv g t → Active t v → (∀ a, Active t a → Reach g a v) →
    (∀ e, e ∈ es → Edge g v e) →
    tsChildren (tsVisit g fuel) es t = some t' →
    TInv g t' ∧ (∀ x, Active t' x ↔ Active t x) ∧ (∀ e, e ∈ es → e ∈ t'.stack) ∧
      (∀ x, x ∈ t.visited → x ∈ t'.visited) ∧ (∀ x, x ∈ t.stack → x ∈ t'.stack)

theorem tchildren_of_tvisit (wf : WF g) (hac : Acyclic g) (fuel : Nat) (hv : TVisit g fuel) :
    TChildren g fuel := by
  intro v es
  induction es with
  | nil =>
    intro t t' hi _ _ _ h
    simp only [tsChildren, Option.some.injEq] at h
    subst h
    exact ⟨hi, fun _ => Iff.rfl, by simp, fun _ h => h, fun _ h => h⟩
  | cons e es ih =>
    intro t t' hi hav hr he h
    have hve : Edge g v e := he e (by simp)
    simp only [tsChildren] at h
    split at h
    · rename_i hev
      split at h
      · simp at h
      · rename_i t1 ht1
        obtain ⟨hi1, ha1, he1, hm1, hs1⟩ :=
          hv e t t1 hi (wf.dst v e hve) hev (fun a ha => (hr a ha).tail hve) ht1
        obtain ⟨hi2, ha2, he2, hm2, hs2⟩ :=
          ih t1 t' hi1 ((ha1 v).mpr hav) (fun a ha => hr a ((ha1 a).mp ha))
            (fun e' he' => he e' (by simp [he'])) h
        refine ⟨hi2, fun x => (ha2 x).trans (ha1 x), ?_, fun x hx => hm2 x (hm1 x hx),
          fun x hx => hs2 x (hs1 x hx)⟩
        intro e' he'
        rcases List.mem_cons.mp he' with h | h
        · subst h; exact hs2 _ he1
        · exact he2 e' h
    · rename_i hev
      have hev' : e ∈ t.visited := by simpa using hev
      have hes : e ∈ t.stack := by
        apply Classical.byContradiction; intro hns
        have : Reach g e v := hr e ⟨hev', hns⟩
        exact hac v (TransGen.head'_iff.mpr ⟨e, hve, this⟩)
      obtain ⟨hi2, ha2, he2, hm2, hs2⟩ :=
        ih t t' hi hav hr (fun e' he' => he e' (by simp [he'])) h
      refine ⟨hi2, ha2, ?_, hm2, hs2⟩
      intro e' he'
      rcases List.mem_cons.mp he' with h | h
      · subst h; exact hs2 _ hes
      · exact he2 e' h

theorem tvisit_all (wf : WF g) (hac : Acyclic g) : ∀ fuel, TVisit g fuel := by
  intro fuel
  induction fuel with
  | zero => intro v s s' _ _ _ _ h; simp [tsVisit] at h
  | succ fuel ih =>
    intro v s s' hi hvn hv hr h
    simp only [tsVisit] at h
    split at h
    · simp at h
    · rename_i t' ht'
      simp only [Option.some.injEq] at h
      subst h
      have hvs : v ∉ s.stack := fun hh => hv (hi.sub v hh)
      have hi0 : TInv g { s with visited := v :: s.visited } := by
        constructor
        · intro x hx; simp [hi.sub x hx]
        · exact hi.topo
        · exact hi.nodup
        · intro x hx
          simp only [List.mem_cons] at hx
          rcases hx with h | h
          · subst h; exact hvn
          · exact hi.inN x h
      have hact0 : ∀ x, Active { s with visited := v :: s.visited } x ↔ (Active s x ∨ x = v) := by
        intro x
        simp only [Active, List.mem_cons]
        constructor
        · rintro ⟨h1 | h1, h2⟩
          · subst h1; exact Or.inr rfl
          · exact Or.inl ⟨h1, h2⟩
        · rintro (⟨h1, h2⟩ | h)
          · exact ⟨Or.inr h1, h2⟩
          · subst h; exact ⟨Or.inl rfl, hvs⟩
      obtain ⟨hi1, ha1, he1, hm1, hs1⟩ :=
        tchildren_of_tvisit g wf hac fuel ih v (g.adj v) _ t' hi0
          ((hact0 v).mpr (Or.inr rfl))
          (fun a ha => by
            rcases (hact0 a).mp ha with h | h
            · exact hr a h
            · subst h; exact ReflTransGen.refl)
          (fun e he => he) ht'
      have hvact : Active t' v := (ha1 v).mpr ((hact0 v).mpr (Or.inr rfl))
      refine ⟨?_, ?_, by simp, fun x hx => hm1 x (by simp [hx]), fun x hx => by simp [hs1 x hx]⟩
      · constructor
        · intro x hx
          simp only [List.mem_cons] at hx
          rcases hx with h | h
          · subst h; exact hvact.1
          · exact hi1.sub x h
        · exact ⟨fun c hc => he1 c hc, hi1.topo⟩
        · simp only [List.nodup_cons]; exact ⟨hvact.2, hi1.nodup⟩
        · exact hi1.inN
      · intro x
        simp only [Active, List.mem_cons, not_or]
        constructor
        · rintro ⟨h1, h2, h3⟩
          rcases (hact0 x).mp ((ha1 x).mp ⟨h1, h3⟩) with h | h
          · exact h
          · exact absurd h h2
        · intro h
          have := (ha1 x).mpr ((hact0 x).mpr (Or.inl h))
          refine ⟨this.1, ?_, this.2⟩
          intro hxv; subst hxv; exact hv h.1

theorem tsLoop_spec (wf : WF g) (hac : Acyclic g) (fuel : Nat) :
    ∀ vs s s', TInv g s → (∀ x, ¬ Active s x) → (∀ v, v ∈ vs → v ∈ g.nodes) →
      tsLoop g fuel vs s = some s' →
      TInv g s' ∧ (∀ x, ¬ Active s' x) ∧ (∀ v, v ∈ vs → v ∈ s'.visited) ∧
        (∀ x, x ∈ s.visited → x ∈ s'.visited) := by
  intro vs
  induction vs with
  | nil =>
    intro s s' hi hna _ h
    simp only [tsLoop, Option.some.injEq] at h; subst h
    exact ⟨hi, hna, by simp, fun _ h => h⟩
  | cons v vs ih =>
    intro s s' hi hna hvs h
    simp only [tsLoop] at h
    split at h
    · rename_i hv
      split at h
      · simp at h
      · rename_i s1 hs1
        obtain ⟨hi1, ha1, hv1, hm1, _⟩ :=
          tvisit_all g wf hac fuel v s s1 hi (hvs v (by simp)) hv
            (fun a ha => absurd ha (hna a)) hs1
        obtain ⟨hi2, ha2, hv2, hm2⟩ :=
          ih s1 s' hi1 (fun x hx => hna x ((ha1 x).mp hx)) (fun v' hv' => hvs v' (by simp [hv'])) h
        refine ⟨hi2, ha2, ?_, fun x hx => hm2 x (hm1 x hx)⟩
        intro v' hv'
        rcases List.mem_cons.mp hv' with h | h
        · subst h; exact hm2 _ (hi1.sub _ hv1)
        · exact hv2 v' h
    · rename_i hv
      have hv' : v ∈ s.visited := by simpa using hv
      obtain ⟨hi2, ha2, hv2, hm2⟩ :=
        ih s s' hi hna (fun v' hv' => hvs v' (by simp [hv'])) h
      refine ⟨hi2, ha2, ?_, hm2⟩
      intro v'' hv''
      rcases List.mem_cons.mp hv'' with h | h
      · subst h; exact hm2 _ hv'
      · exact hv2 v'' h

theorem topoSort_spec (wf : WF g) (hac : Acyclic g) {l : List Nat} (h : topoSort g = some l) :
    l.Nodup ∧ (∀ x, x ∈ l ↔ x ∈ g.nodes) ∧ TopoOK g l := by
  unfold topoSort at h
  cases hl : tsLoop g (g.nodes.length + 1) g.nodes ⟨[], []⟩ with
  | none => simp [hl] at h
  | some s' =>
    simp only [hl, Option.map_some, Option.some.injEq] at h
    subst h
    have hi0 : TInv g ⟨[], []⟩ := by
      constructor <;> simp [TopoOK]
    obtain ⟨hi, hna, hall, _⟩ :=
      tsLoop_spec g wf hac _ g.nodes ⟨[], []⟩ s' hi0 (by simp [Active]) (fun _ h => h) hl
    refine ⟨hi.nodup, ?_, hi.topo⟩
    intro x
    constructor
    · intro hx; exact hi.inN x (hi.sub x hx)
    · intro hx
      apply Classical.byContradiction; intro hns
      exact hna x ⟨hall x hx, hns⟩

/-- `TopoOK` in terms of positions: on a duplicate-free list every edge goes
from an earlier to a strictly later position. -/
theorem topoOK_idx {l : List Nat} (hn : l.Nodup) (ht : TopoOK g l) {u v : Nat}
    (hu : u ∈ l) (e : Edge g u v) : l.idxOf u < l.idxOf v ∧ v ∈ l := by
  induction l with
  | nil => simp at hu
  | cons x rest ih =>
    simp only [List.nodup_cons] at hn
    obtain ⟨hc, hrest⟩ := ht
    by_cases hxu : x = u
    · subst hxu
      have hv : v ∈ rest := hc v e
      have hne : x ≠ v := fun h => hn.1 (h ▸ hv)
      refine ⟨?_, by simp [hv]⟩
      have hb : (x == v) = false := by simp [hne]
      simp [List.idxOf_cons, hb]
    · have hu' : u ∈ rest := by
        rcases List.mem_cons.mp hu with h | h
        · exact absurd h.symm hxu
        · exact h
      obtain ⟨h1, h2⟩ := ih hn.2 hrest hu'
      have hxv : x ≠ v := fun h => hn.1 (h ▸ h2)
      refine ⟨?_, by simp [h2]⟩
      have hb1 : (x == u) = false := by simp [hxu]
      have hb2 : (x == v) = false := by simp [hxv]
      simp [List.idxOf_cons, hb1, hb2, h1]

/-! fuel -/

def TMVisit (fuel : Nat) : Prop :=
  ∀ v s s', tsVisit g fuel v s = some s' → ∀ x, x ∈ s.visited → x ∈ s'.visited

def TMChildren (fuel : Nat) : Prop :=
  ∀ es s s', tsChildren (tsVisit g fuel) es s = some s' → ∀ x, x ∈ s.visited → x ∈ s'.visited

theorem tmchildren_of_tmvisit (fuel : Nat) (hv : TMVisit g fuel) : TMChildren g fuel := by
  intro es
  induction es with
  | nil => intro s s' h x hx; simp only [tsChildren, Option.some.injEq] at h; subst h; exact hx
  | cons e es ih =>
    intro s s' h x hx
    simp only [tsChildren] at h
    split at h
    · split at h
      · simp at h
      · rename_i s1 hs1
        exact ih s1 s' h x (hv e s s1 hs1 x hx)
    · exact ih s s' h x hx

theorem tmvisit_all : ∀ fuel, TMVisit g fuel := by
  intro fuel
  induction fuel with
  | zero => intro v s s' h; simp [tsVisit] at h
  | succ fuel ih =>
    intro v s s' h x hx
    simp only [tsVisit] at h
    split at h
    · simp at h
    · rename_i t' ht'
      simp only [Option.some.injEq] at h; subst h
      exact tmchildren_of_tmvisit g fuel ih _ _ t' ht' x (by simp [hx])

def TFVisit (fuel : Nat) : Prop :=
  ∀ v s, v ∈ g.nodes → v ∉ s.visited → unvisited g s.visited ≤ fuel → tsVisit g fuel v s ≠ none

def TFChildren (fuel : Nat) : Prop :=
  ∀ es s, (∀ e, e ∈ es → e ∈ g.nodes) → unvisited g s.visited ≤ fuel →
    tsChildren (tsVisit g fuel) es s ≠ none

theorem tfchildren_of_tfvisit (fuel : Nat) (hv : TFVisit g fuel) : TFChildren g fuel := by
  intro es
  induction es with
  | nil => intro s _ _; simp [tsChildren]
  | cons e es ih =>
    intro s hes hu
    simp only [tsChildren]
    split
    · rename_i hev
      have := hv e s (hes e (by simp)) hev hu
      split
      · rename_i heq; exact absurd heq this
      · rename_i s1 hs1
        apply ih s1 (fun e' he' => hes e' (by simp [he']))
        exact Nat.le_trans (unvisited_mono g (tmvisit_all g fuel e s s1 hs1)) hu
    · exact ih s (fun e' he' => hes e' (by simp [he'])) hu

theorem tfvisit_all (wf : WF g) : ∀ fuel, TFVisit g fuel := by
  intro fuel
  induction fuel with
  | zero =>
    intro v s hv hnv hu
    have := unvisited_lt g hv hnv
    omega
  | succ fuel ih =>
    intro v s hv hnv hu
    simp only [tsVisit]
    have hne : tsChildren (tsVisit g fuel) (g.adj v) { s with visited := v :: s.visited } ≠ none := by
      apply tfchildren_of_tfvisit g fuel ih (g.adj v) _ (fun c hc => wf.dst v c hc)
      have := unvisited_lt g hv hnv
      simp only
      omega
    split
    · rename_i heq; exact absurd heq hne
    · simp

theorem tsLoop_fuel (wf : WF g) (fuel : Nat) :
    ∀ vs s, (∀ v, v ∈ vs → v ∈ g.nodes) → unvisited g s.visited ≤ fuel →
      tsLoop g fuel vs s ≠ none := by
  intro vs
  induction vs with
  | nil => intro s _ _; simp [tsLoop]
  | cons v vs ih =>
    intro s hvs hu
    simp only [tsLoop]
    split
    · rename_i hv
      have := tfvisit_all g wf fuel v s (hvs v (by simp)) hv hu
      split
      · rename_i heq; exact absurd heq this
      · rename_i s1 hs1
        apply ih s1 (fun v' hv' => hvs v' (by simp [hv']))
        exact Nat.le_trans (unvisited_mono g (tmvisit_all g _ v s s1 hs1)) hu
    · exact ih s (fun v' hv' => hvs v' (by simp [hv'])) hu

theorem topoSort_fuel (wf : WF g) : topoSort g ≠ none := by
  unfold topoSort
  have : tsLoop g (g.nodes.length + 1) g.nodes ⟨[], []⟩ ≠ none := by
    apply tsLoop_fuel g wf _ g.nodes ⟨[], []⟩ (fun v hv => hv)
    unfold unvisited
    exact Nat.le_succ_of_le (List.length_filter_le _ _)
  cases h : tsLoop g (g.nodes.length + 1) g.nodes ⟨[], []⟩ with
  | none => exact absurd h this
  | some s => simp

end MaestroVerif.Dag
