import MaestroVerif.Lemmas.ExecDemo

/-!
# C01 — A step is never launched before all of its dependencies succeeded

Model: `Model/Exec.lean` (tied to `executiongraph.py` by the execution-graph
correspondence).  Quantifiers: every well-formed configuration (any DAG, any
throttle / attempts / restart limit, any submission-outcome stream), every
sequence of polls with arbitrary well-formed scheduler answers (lost, `None`,
unknown, repeated, re-ordered reports are all just lists of reports) and cancel
requests.
-/
namespace MaestroVerif.C01
open MaestroVerif.Exec MaestroVerif.Gen

/-- **Every launch (first submission, resubmission, restart, local run) was
decided when all parents of the step were complete.**  `depsOk` is the history
variable set in `execPrep`, the first thing `_execute_record` does. -/
theorem C01_launch_after_deps {cfg : Cfg} (wf : WFCfg' cfg) {g : G} (h : Reachable cfg g) :
    g.depsOk = true :=
  (invAll_reachable wf h).b.depsOk

/-- The state-level reason: whatever is queued for launch or tracked as
in flight has all of its parents in the completed set. -/
theorem C01_ready_deps {cfg : Cfg} (wf : WFCfg' cfg) {g : G} (h : Reachable cfg g)
    {i p : Nat} (hi : i ∈ g.ready ∨ i ∈ g.inProgress) (hp : p ∈ cfg.parents i) :
    p ∈ g.completed :=
  (invAll_reachable wf h).toInv.toInvA.ancR i p hi hp

/-- **A step counts as complete only on success**: it enters the completed set
in a poll only if the scheduler answered FINISHED for it in that poll (with an
OK query), or it is a locally executed step (whose run returned OK), or this is
a dry run. -/
theorem C01_completed_only_on_success (cfg : Cfg) (g : G) (p : PollIn) (x : Nat)
    (hx : x ∈ (poll cfg g p).1.completed) :
    x ∈ g.completed ∨ (p.code = .OK ∧ (x, some State.FINISHED) ∈ p.reports) ∨
      cfg.dry = true ∨ cfg.sched x = false :=
  (poll_completed cfg g p).2 x hx

/-- completed steps stay complete (the prerequisite of a later launch cannot be
withdrawn) -/
theorem C01_completed_monotone (cfg : Cfg) (g : G) (p : PollIn) (x : Nat) (hx : x ∈ g.completed) :
    x ∈ (poll cfg g p).1.completed :=
  (poll_completed cfg g p).1.completed x hx

/-! non-vacuity: the hypotheses are satisfied by a concrete diamond with a failed
first submission, a lost report, a time-out with restart, a failure, a cancel -/
example : WFCfg' demoCfg ∧ Reachable demoCfg (run demoCfg demoOps) ∧
    (run demoCfg demoOps).depsOk = true ∧ (run demoCfg demoOps).completed = [0, 1, 3] :=
  ⟨demo_wf, demo_reachable, C01_launch_after_deps demo_wf demo_reachable, demo_state.1⟩

end MaestroVerif.C01
