import MaestroVerif.Model.Exec

/-! # C01 — A step is never launched before all of its dependencies succeeded (theorems are being added) -/
namespace MaestroVerif.C01
open MaestroVerif.Exec MaestroVerif.Gen

theorem C01_init_not_canceled (cfg : Cfg) : (init cfg).isCanceled = false := rfl

end MaestroVerif.C01
