import MaestroVerif.Lemmas.ExecDemo
import MaestroVerif.Props.C05

/-!
# C19 — Locally executed steps really run, once, in order, and their exit code decides

Model side (`Model/Exec.lean`, local steps: `sched i = false`; the exit code of
the k-th execution is `subOk k`).  The real processes, pids, working
directories and captured output are runtime behaviour: sampled by the CLI runs
of `harness/props/c19.py`, which also compare every run with this model.
-/
namespace MaestroVerif.C19
open MaestroVerif.Exec MaestroVerif.Gen

theorem attempt_count (cfg : Cfg) (i : Nat) (restart : Bool) (g : G) :
    (attempt cfg i restart g).1.subCount = g.subCount + 1 ∧
    (attempt cfg i restart g).2 = cfg.subOk g.subCount := by
  simp only [attempt, emit, setStatus]
  repeat' split
  all_goals simp

/-- **One execution per submission attempt, stopping at the first exit code 0,
at most `attempts` of them**: the retry loop started at execution counter `c`
performs executions `c, c+1, …`; it reports success iff one of the first `k`
exits 0, and then it stopped right there; otherwise it ran exactly `k` times. -/
theorem C19_run_count (cfg : Cfg) (i : Nat) (restart : Bool) : ∀ (k : Nat) (g : G),
    g.subCount ≤ (submitLoop cfg i restart k g).1.subCount ∧
    (submitLoop cfg i restart k g).1.subCount ≤ g.subCount + k ∧
    (∀ j, g.subCount ≤ j → j + 1 < (submitLoop cfg i restart k g).1.subCount → cfg.subOk j = false) ∧
    ((submitLoop cfg i restart k g).2 = true →
      g.subCount < (submitLoop cfg i restart k g).1.subCount ∧
      cfg.subOk ((submitLoop cfg i restart k g).1.subCount - 1) = true) ∧
    ((submitLoop cfg i restart k g).2 = false →
      (submitLoop cfg i restart k g).1.subCount = g.subCount + k ∧
      ∀ j, g.subCount ≤ j → j < (submitLoop cfg i restart k g).1.subCount → cfg.subOk j = false) := by
  intro k
  induction k with
  | zero =>
    intro g
    have e : submitLoop cfg i restart 0 g = (g, false) := rfl
    rw [e]
    dsimp only
    refine ⟨Nat.le_refl _, Nat.le_add_right _ _, ?_, ?_, ?_⟩
    · intro j h1 h2; omega
    · intro h; cases h
    · intro _; exact ⟨rfl, fun j h1 h2 => by omega⟩
  | succ k ih =>
    intro g
    obtain ⟨hc, ho⟩ := attempt_count cfg i restart g
    simp only [submitLoop]
    split
    · rename_i hok
      rw [ho] at hok
      simp only [hc]
      refine ⟨by omega, by omega, ?_, ?_, ?_⟩
      · intro j h1 h2; omega
      · intro _; exact ⟨by omega, by simpa using hok⟩
      · intro h; cases h
    · rename_i hok
      rw [ho] at hok
      have hf : cfg.subOk g.subCount = false := by simpa using hok
      obtain ⟨a1, a2, a3, a4, a5⟩ := ih (attempt cfg i restart g).1
      rw [hc] at a1 a2 a3 a4 a5
      refine ⟨by omega, by omega, ?_, ?_, ?_⟩
      · intro j h1 h2
        by_cases hj : j = g.subCount
        · subst hj; exact hf
        · exact a3 j (by omega) h2
      · intro h; have := a4 h; exact ⟨by omega, this.2⟩
      · intro h
        obtain ⟨b1, b2⟩ := a5 h
        refine ⟨by omega, ?_⟩
        intro j h1 h2
        by_cases hj : j = g.subCount
        · subst hj; exact hf
        · exact b2 j (by omega) h2

/-- **Exit code 0 marks the step FINISHED and complete at once** (a local step is
never left in flight: dependents can be staged by the next poll). -/
theorem C19_success_finishes (cfg : Cfg) (g : G) (i : Nat) (hl : cfg.sched i = false) :
    (execFinish cfg g i true).status i = .FINISHED ∧ i ∈ (execFinish cfg g i true).completed ∧
    i ∉ (execFinish cfg g i true).inProgress := by
  simp [execFinish, hl, setStatus]

/-- **When every attempt fails the step and all of its dependents are marked
FAILED** (and the step is not tracked). -/
theorem C19_failure_fails_subtree {cfg : Cfg} (wf : WFCfg cfg) (g : G) (i : Nat) :
    (∀ x, x ∈ subtree cfg i → x ∈ (execFinish cfg g i false).failed ∧
      (execFinish cfg g i false).status x = .FAILED) ∧
    i ∈ (execFinish cfg g i false).failed ∧ i ∉ (execFinish cfg g i false).inProgress ∧
    (∀ x, x ∈ subtree cfg i ↔ Dag.Reach cfg.dag i x) := by
  have m := markFailed_spec (subtree cfg i) { g with inProgress := rem i g.inProgress }
  simp only [execFinish, Bool.false_eq_true, ↓reduceIte, failSubtree_eq]
  refine ⟨?_, ?_, ?_, fun x => mem_subtree wf⟩
  · intro x hx
    exact ⟨(m.failed x).mpr (Or.inl hx), by rw [m.status]; simp [hx]⟩
  · exact (m.failed i).mpr (Or.inl (self_mem_subtree wf i))
  · rw [m.inProgress]; simp

/-- **A step runs only after every dependency completed** (C01 for local steps:
completion of a local dependency *is* its exit code 0). -/
theorem C19_order {cfg : Cfg} (wf : WFCfg' cfg) {g : G} (h : Reachable cfg g) : g.depsOk = true :=
  (invAll_reachable wf h).b.depsOk

/-- the exit code of `maestro run -fg` is the numeric value of the verdict -/
theorem C19_exit_code : exitCode .FINISHED = 0 ∧ exitCode .FAILURE = 2 := by decide

/-! non-vacuity: three executions, the third one exits 0 -/
example : (submitLoop { demoCfg with sched := fun _ => false, subOk := fun k => k == 2 } 1 false 3
    (init demoCfg)).1.subCount = 3 ∧
    (submitLoop { demoCfg with sched := fun _ => false, subOk := fun k => k == 2 } 1 false 3
    (init demoCfg)).2 = true := by decide

end MaestroVerif.C19
