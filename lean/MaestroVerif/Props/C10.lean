import MaestroVerif.Model.Expand

/-!
# C10 — Every step instance has its own workspace inside the study directory

`sanitize` / `makeSafePath` model `utils.make_safe_path`; the alphabet is
`Gen/SafeAlphabet.lean`, regenerated from the source on every run.  The full
statement ("whatever characters the values and labels contain") is false of the
code: the proved counterexamples below are the known findings D10–D12; the
`_partial` theorems carry the excluding hypotheses.
-/
namespace MaestroVerif.C10
open MaestroVerif.Expand MaestroVerif.Subst MaestroVerif.Gen

def rewriteChar (c : Char) : Char :=
  match safeRewrite.find? (·.1 == c) with | some p => p.2 | none => c

/-- over the generated alphabet: no kept character becomes a path separator or
a blank -/
theorem alphabet_safe : ∀ c ∈ safeAlphabet, rewriteChar c ≠ '/' ∧ rewriteChar c ≠ ' ' ∧
    rewriteChar c ≠ '\n' := by decide

/-- **Every character of a sanitised path component is harmless**: no `/`, no
blank, no newline — whatever the argument contains. -/
theorem C10_component_safe (arg : Str) : ∀ c ∈ sanitize arg, c ≠ '/' ∧ c ≠ ' ' ∧ c ≠ '\n' := by
  intro c hc
  simp only [sanitize, List.mem_map, List.mem_filter] at hc
  obtain ⟨a, ⟨_, ha⟩, rfl⟩ := hc
  exact alphabet_safe a (by simpa using ha)

/-- a component made only of alphabet characters that are not rewritten is kept
as it is … -/
theorem sanitize_id (arg : Str) (h : ∀ c ∈ arg, c ∈ safeAlphabet ∧ rewriteChar c = c) :
    sanitize arg = arg := by
  induction arg with
  | nil => rfl
  | cons a as ih =>
    have ha := h a (by simp)
    have hin : safeAlphabet.contains a = true := by simpa using ha.1
    have := ih (fun c hc => h c (by simp [hc]))
    simp only [sanitize, List.filter_cons, hin, ↓reduceIte, List.map_cons] at this ⊢
    rw [this]
    congr 1
    exact ha.2

/-- **… hence distinct safe names get distinct components (partial: names made
of alphabet characters other than the blank).** -/
theorem C10_distinct_partial (a b : Str)
    (ha : ∀ c ∈ a, c ∈ safeAlphabet ∧ rewriteChar c = c)
    (hb : ∀ c ∈ b, c ∈ safeAlphabet ∧ rewriteChar c = c) (hne : a ≠ b) :
    sanitize a ≠ sanitize b := by
  rw [sanitize_id a ha, sanitize_id b hb]; exact hne

/-- joining a non-empty component that contains no `/` below a directory that
does not end in `/` appends exactly one path level -/
theorem pathJoin_level (base comp : Str) (hb : base ≠ []) (hbl : base.getLast? ≠ some '/')
    (hc : ∀ c ∈ comp, c ≠ '/') : pathJoin base comp = base ++ ['/'] ++ comp := by
  unfold pathJoin
  have h1 : (comp.head? == some '/') = false := by
    cases comp with
    | nil => rfl
    | cons c cs => have := hc c (by simp); simpa using this
  have h2 : base.isEmpty = false := by simpa using hb
  have h3 : (base.getLast? == some '/') = false := by simpa using hbl
  simp [h1, h2, h3]

/-- **Workspaces are strictly inside the study directory (partial: sanitised
components are non-empty; `.` and `..` are excluded by the monitor's known
finding)**: `make_safe_path(root, step, combo)` is `root/<step>/<combo>` with both
levels free of `/`. -/
theorem C10_inside_root_partial (root step comboStr : Str) (hr : root ≠ [])
    (hrl : root.getLast? ≠ some '/') (hs : sanitize step ≠ []) :
    makeSafePath root [step, comboStr] = root ++ ['/'] ++ sanitize step ++ ['/'] ++ sanitize comboStr ∧
    makeSafePath root [step] = root ++ ['/'] ++ sanitize step ∧
    (∀ c ∈ sanitize step, c ≠ '/') ∧ (∀ c ∈ sanitize comboStr, c ≠ '/') := by
  have h1 := pathJoin_level root (sanitize step) hr hrl (fun c hc => (C10_component_safe step c hc).1)
  refine ⟨?_, ?_, fun c hc => (C10_component_safe step c hc).1,
    fun c hc => (C10_component_safe comboStr c hc).1⟩
  · simp only [makeSafePath, List.foldl_cons, List.foldl_nil, h1]
    apply pathJoin_level
    · simp
    · intro hl
      rw [List.getLast?_append] at hl
      have hs' : (sanitize step).getLast?.isSome = true := by
        cases hh : (sanitize step).getLast? with
        | none => exact absurd (List.getLast?_eq_none_iff.mp hh) hs
        | some _ => rfl
      cases hg : (sanitize step).getLast? with
      | none => rw [hg] at hs'; cases hs'
      | some x =>
      rw [hg] at hl
      simp only [Option.some_or, Option.some.injEq] at hl
      subst hl
      obtain ⟨l, hl'⟩ := List.getLast?_eq_some_iff.mp hg
      have := (C10_component_safe step '/' (by rw [hl']; simp)).1
      exact this rfl
    · exact fun c hc => (C10_component_safe comboStr c hc).1
  · simp only [makeSafePath, List.foldl_cons, List.foldl_nil, h1]

/-! ### proved counterexamples of the unrestricted statement (known findings) -/

/-- D10: labels that differ only in stripped characters collide -/
theorem C10_counterexample_collisions :
    sanitize "+1".toList = sanitize "1".toList ∧ sanitize "a b".toList = sanitize "a_b".toList ∧
    sanitize "p/q".toList = sanitize "pq".toList := by decide

/-- D10: a component can sanitise to the empty string, `.` or `..` (not strictly
inside the step directory) -/
theorem C10_counterexample_degenerate :
    sanitize "é/".toList = [] ∧ sanitize "..".toList = "..".toList ∧ sanitize "/.".toList = ".".toList := by
  decide

/-! non-vacuity -/
example : makeSafePath "/out/study".toList ["run".toList, "SIZE.10.ITER.5".toList] =
    "/out/study/run/SIZE.10.ITER.5".toList := by decide

end MaestroVerif.C10
