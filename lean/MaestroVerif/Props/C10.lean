import MaestroVerif.Model.Expand
import MaestroVerif.Lemmas.ExpandWs

/-!
# C10 — Every step instance has its own workspace inside the study directory

`sanitize` / `makeSafePath` model `utils.make_safe_path`; the alphabet is
`Gen/SafeAlphabet.lean`, regenerated from the source on every run.  The full
statement ("whatever characters the values and labels contain") is false of the
code: the proved counterexamples below are the known findings D10–D12; the
`_partial` theorems carry the excluding hypotheses.
-/
namespace MaestroVerif.C10
open MaestroVerif.Expand MaestroVerif.Subst MaestroVerif.Gen

def rewriteChar (c : Char) : Char :=
  match safeRewrite.find? (·.1 == c) with | some p => p.2 | none => c

/-- over the generated alphabet: no kept character becomes a path separator or
a blank -/
theorem alphabet_safe : ∀ c ∈ safeAlphabet, rewriteChar c ≠ '/' ∧ rewriteChar c ≠ ' ' ∧
    rewriteChar c ≠ '\n' := by decide

/-- **Every character of a sanitised path component is harmless**: no `/`, no
blank, no newline — whatever the argument contains. -/
theorem C10_component_safe (arg : Str) : ∀ c ∈ sanitize arg, c ≠ '/' ∧ c ≠ ' ' ∧ c ≠ '\n' := by
  intro c hc
  simp only [sanitize, List.mem_map, List.mem_filter] at hc
  obtain ⟨a, ⟨_, ha⟩, rfl⟩ := hc
  exact alphabet_safe a (by simpa using ha)

/-- a component made only of alphabet characters that are not rewritten is kept
as it is … -/
theorem sanitize_id (arg : Str) (h : ∀ c ∈ arg, c ∈ safeAlphabet ∧ rewriteChar c = c) :
    sanitize arg = arg := by
  induction arg with
  | nil => rfl
  | cons a as ih =>
    have ha := h a (by simp)
    have hin : safeAlphabet.contains a = true := by simpa using ha.1
    have := ih (fun c hc => h c (by simp [hc]))
    simp only [sanitize, List.filter_cons, hin, ↓reduceIte, List.map_cons] at this ⊢
    rw [this]
    congr 1
    exact ha.2

/-- **… hence distinct safe names get distinct components (partial: names made
of alphabet characters other than the blank).** -/
theorem C10_distinct_partial (a b : Str)
    (ha : ∀ c ∈ a, c ∈ safeAlphabet ∧ rewriteChar c = c)
    (hb : ∀ c ∈ b, c ∈ safeAlphabet ∧ rewriteChar c = c) (hne : a ≠ b) :
    sanitize a ≠ sanitize b := by
  rw [sanitize_id a ha, sanitize_id b hb]; exact hne

/-- joining a non-empty component that contains no `/` below a directory that
does not end in `/` appends exactly one path level -/
theorem pathJoin_level (base comp : Str) (hb : base ≠ []) (hbl : base.getLast? ≠ some '/')
    (hc : ∀ c ∈ comp, c ≠ '/') : pathJoin base comp = base ++ ['/'] ++ comp := by
  unfold pathJoin
  have h1 : (comp.head? == some '/') = false := by
    cases comp with
    | nil => rfl
    | cons c cs => have := hc c (by simp); simpa using this
  have h2 : base.isEmpty = false := by simpa using hb
  have h3 : (base.getLast? == some '/') = false := by simpa using hbl
  simp [h1, h2, h3]

/-- **Workspaces are strictly inside the study directory (partial: sanitised
components are non-empty; `.` and `..` are excluded by the monitor's known
finding)**: `make_safe_path(root, step, combo)` is `root/<step>/<combo>` with both
levels free of `/`. -/
theorem C10_inside_root_partial (root step comboStr : Str) (hr : root ≠ [])
    (hrl : root.getLast? ≠ some '/') (hs : sanitize step ≠ []) :
    makeSafePath root [step, comboStr] = root ++ ['/'] ++ sanitize step ++ ['/'] ++ sanitize comboStr ∧
    makeSafePath root [step] = root ++ ['/'] ++ sanitize step ∧
    (∀ c ∈ sanitize step, c ≠ '/') ∧ (∀ c ∈ sanitize comboStr, c ≠ '/') := by
  have h1 := pathJoin_level root (sanitize step) hr hrl (fun c hc => (C10_component_safe step c hc).1)
  refine ⟨?_, ?_, fun c hc => (C10_component_safe step c hc).1,
    fun c hc => (C10_component_safe comboStr c hc).1⟩
  · simp only [makeSafePath, List.foldl_cons, List.foldl_nil, h1]
    apply pathJoin_level
    · simp
    · intro hl
      rw [List.getLast?_append] at hl
      have hs' : (sanitize step).getLast?.isSome = true := by
        cases hh : (sanitize step).getLast? with
        | none => exact absurd (List.getLast?_eq_none_iff.mp hh) hs
        | some _ => rfl
      cases hg : (sanitize step).getLast? with
      | none => rw [hg] at hs'; cases hs'
      | some x =>
      rw [hg] at hl
      simp only [Option.some_or, Option.some.injEq] at hl
      subst hl
      obtain ⟨l, hl'⟩ := List.getLast?_eq_some_iff.mp hg
      have := (C10_component_safe step '/' (by rw [hl']; simp)).1
      exact this rfl
    · exact fun c hc => (C10_component_safe comboStr c hc).1
  · simp only [makeSafePath, List.foldl_cons, List.foldl_nil, h1]

/-! ### proved counterexamples of the unrestricted statement (known findings) -/

/-- D10: labels that differ only in stripped characters collide -/
theorem C10_counterexample_collisions :
    sanitize "+1".toList = sanitize "1".toList ∧ sanitize "a b".toList = sanitize "a_b".toList ∧
    sanitize "p/q".toList = sanitize "pq".toList := by decide

/-- D10: a component can sanitise to the empty string, `.` or `..` (not strictly
inside the step directory) -/
theorem C10_counterexample_degenerate :
    sanitize "é/".toList = [] ∧ sanitize "..".toList = "..".toList ∧ sanitize "/.".toList = ".".toList := by
  decide

/-! non-vacuity -/
example : makeSafePath "/out/study".toList ["run".toList, "SIZE.10.ITER.5".toList] =
    "/out/study/run/SIZE.10.ITER.5".toList := by decide

end MaestroVerif.C10

namespace MaestroVerif.C10
open MaestroVerif.Expand MaestroVerif.Subst MaestroVerif.Gen

/-- a path component `make_safe_path` keeps as it is and that names a directory of its own:
non-empty, not `.` or `..`, made of alphabet characters that are not rewritten -/
def Clean (a : Str) : Prop :=
  a ≠ [] ∧ a ≠ ['.'] ∧ a ≠ ['.', '.'] ∧ ∀ c ∈ a, c ∈ safeAlphabet ∧ rewriteChar c = c

theorem Clean.sanitize {a : Str} (h : Clean a) : sanitize a = a := sanitize_id a h.2.2.2

theorem Clean.noSlash {a : Str} (h : Clean a) : ∀ c ∈ a, c ≠ '/' := by
  intro c hc
  have := C10_component_safe a c (by rw [h.sanitize]; exact hc)
  exact this.1

theorem flat_path (root a : Str) (hr : root ≠ []) (hrl : root.getLast? ≠ some '/') (ha : Clean a) :
    makeSafePath root [a] = root ++ '/' :: a := by
  have := (C10_inside_root_partial root a [] hr hrl (by rw [ha.sanitize]; exact ha.1)).2.1
  rw [this, ha.sanitize]; simp

theorem row_path (root a b : Str) (hr : root ≠ []) (hrl : root.getLast? ≠ some '/') (ha : Clean a)
    (hb : Clean b) : makeSafePath root [a, b] = root ++ '/' :: (a ++ '/' :: b) := by
  have := (C10_inside_root_partial root a b hr hrl (by rw [ha.sanitize]; exact ha.1)).1
  rw [this, ha.sanitize, hb.sanitize]; simp

/-- **Graph level: the shape of every workspace.**  Whatever the specification and the iteration
order, every instance of the finished graph has the workspace `make_safe_path(root, step)` (and the
step's name) or `make_safe_path(root, step, combination string - or its hash)` (and the name
`step_<combination string>`) of a step of the specification. -/
theorem C10_graph_workspace_shape (spec : Spec) (ord : List Str → List Str) (r : XG)
    (h : stage spec ord = .ok r) : ∀ i, i ∈ r.insts → WsShape spec (· ∈ spec.steps) i :=
  stage_ws spec ord r h

/-- the hypotheses under which the code does keep workspaces apart (the complement is the known
findings D10-D12): the study directory is a non-empty path without a trailing `/`, workspaces are
not hashed, step names and combination strings are `Clean` -/
structure CleanSpec (spec : Spec) : Prop where
  root_ne : spec.root ≠ []
  root_end : spec.root.getLast? ≠ some '/'
  plain : spec.hashWs = false
  steps : ∀ st, st ∈ spec.steps → Clean st.name
  labels : ∀ (k : Str) (r : Nat), k ∈ spec.params.map (·.key) → r < nRows spec.params →
    Clean (lookup (combo spec.params r).labels k)

theorem dot_clean : '.' ∈ safeAlphabet ∧ rewriteChar '.' = '.' := by decide

theorem clean_join : ∀ (l : List Str), l ≠ [] → (∀ x, x ∈ l → Clean x) → Clean (joinWith ['.'] l)
  | [], h, _ => absurd rfl h
  | [x], _, hx => by simpa [joinWith] using hx x (by simp)
  | x :: y :: rest, _, hx => by
    have ih := clean_join (y :: rest) (by simp) (fun z hz => hx z (by simp [hz]))
    have cx := hx x (by simp)
    simp only [joinWith]
    obtain ⟨a, as, ea⟩ := List.exists_cons_of_ne_nil cx.1
    obtain ⟨b, bs, eb⟩ := List.exists_cons_of_ne_nil ih.1
    refine ⟨by simp [ea], ?_, ?_, ?_⟩
    · rw [ea, eb]; intro e; have := congrArg List.length e; simp at this
    · rw [ea, eb]; intro e; have := congrArg List.length e; simp at this; omega
    · intro c hc
      simp only [List.append_assoc, List.mem_append, List.mem_singleton] at hc
      rcases hc with hc | hc | hc
      · exact cx.2.2.2 c hc
      · subst hc; exact dot_clean
      · exact ih.2.2.2 c hc

/-- the combination string of a non-empty set of parameter keys is `Clean` when every label is -/
theorem CleanSpec.combo {spec : Spec} (hc : CleanSpec spec) (used : List Str) (r : Nat)
    (hu : used.isEmpty = false) (hsub : ∀ k, k ∈ used → k ∈ spec.params.map (·.key))
    (hr : r < nRows spec.params) : Clean ((combo spec.params r).paramString used) := by
  unfold Combo.paramString
  apply clean_join
  · have := MaestroVerif.C08.sortDedup_isEmpty used
    rw [hu] at this
    intro e
    rw [List.map_eq_nil_iff] at e
    rw [e] at this
    simp at this
  · intro x hx
    obtain ⟨k, hk, rfl⟩ := List.mem_map.mp hx
    exact hc.labels k r (hsub k (mem_sortDedup.mp hk)) hr

/-- **Graph level: every instance has its own workspace (partial: `CleanSpec`).**  Two instances of
the finished graph with the same workspace are the same instance. -/
theorem C10_graph_workspaces_distinct_partial (spec : Spec) (ord : List Str → List Str) (r : XG)
    (h : stage spec ord = .ok r) (hc : CleanSpec spec) :
    ∀ i j, i ∈ r.insts → j ∈ r.insts → i.ws = j.ws → i.name = j.name := by
  intro i j hi hj hw
  have si := stage_ws spec ord r h i hi
  have sj := stage_ws spec ord r h j hj
  have hp := hc.plain
  cases si with
  | flat st hk hn hwi =>
    cases sj with
    | flat st' hk' hn' hwj =>
      rw [hwi, hwj, flat_path _ _ hc.root_ne hc.root_end (hc.steps _ hk),
        flat_path _ _ hc.root_ne hc.root_end (hc.steps _ hk')] at hw
      have := List.append_cancel_left hw
      simp only [List.cons.injEq, true_and] at this
      rw [hn, hn', this]
    | row st' hk' used r' hu hsub hr hn' hwj =>
      exfalso
      simp only [hp, Bool.false_eq_true, ↓reduceIte] at hwj
      rw [hwi, hwj, flat_path _ _ hc.root_ne hc.root_end (hc.steps _ hk),
        row_path _ _ _ hc.root_ne hc.root_end (hc.steps _ hk') (hc.combo used r' hu hsub hr)] at hw
      have := List.append_cancel_left hw
      simp only [List.cons.injEq, true_and] at this
      exact (hc.steps _ hk).noSlash '/' (by rw [this]; simp) rfl
  | row st hk used r0 hu hsub0 hr0 hn hwi =>
    simp only [hp, Bool.false_eq_true, ↓reduceIte] at hwi
    cases sj with
    | flat st' hk' hn' hwj =>
      exfalso
      rw [hwi, hwj, flat_path _ _ hc.root_ne hc.root_end (hc.steps _ hk'),
        row_path _ _ _ hc.root_ne hc.root_end (hc.steps _ hk) (hc.combo used r0 hu hsub0 hr0)] at hw
      have := List.append_cancel_left hw
      simp only [List.cons.injEq, true_and] at this
      exact (hc.steps _ hk').noSlash '/' (by rw [← this]; simp) rfl
    | row st' hk' used' r' hu' hsub' hr' hn' hwj =>
      simp only [hp, Bool.false_eq_true, ↓reduceIte] at hwj
      rw [hwi, hwj, row_path _ _ _ hc.root_ne hc.root_end (hc.steps _ hk) (hc.combo used r0 hu hsub0 hr0),
        row_path _ _ _ hc.root_ne hc.root_end (hc.steps _ hk') (hc.combo used' r' hu' hsub' hr')] at hw
      have := List.append_cancel_left hw
      simp only [List.cons.injEq, true_and] at this
      obtain ⟨e1, e2⟩ := slash_split _ _ _ _ (hc.steps _ hk).noSlash (hc.steps _ hk').noSlash this
      rw [hn, hn', e1, e2]

/-- … and since there is exactly one instance per name (`C08_exactly_one_instance_per_name`), the
two are the same entry of the graph -/
theorem C10_graph_one_workspace_one_instance_partial (spec : Spec) (ord : List Str → List Str) (r : XG)
    (h : stage spec ord = .ok r) (hc : CleanSpec spec) :
    ∀ a b (ha : a < r.insts.length) (hb : b < r.insts.length),
      (r.insts[a]).ws = (r.insts[b]).ws → a = b := by
  intro a b ha hb hw
  have hn := C10_graph_workspaces_distinct_partial spec ord r h hc _ _
    (List.getElem_mem ha) (List.getElem_mem hb) hw
  have hu : (r.insts.map (·.name)).Nodup :=
    (stage_uniqueNames spec ord r h).1
  have hp := List.pairwise_iff_getElem.mp hu
  rcases Nat.lt_trichotomy a b with l | e | l
  · exact absurd (by rw [List.getElem_map, List.getElem_map]; exact hn) (hp a b (by simpa using ha) (by simpa using hb) l)
  · exact e
  · exact absurd (by rw [List.getElem_map, List.getElem_map]; exact hn.symm) (hp b a (by simpa using hb) (by simpa using ha) l)

/-- **Graph level: every workspace is strictly inside the study directory (partial: `CleanSpec`)**:
`root/<step>` or `root/<step>/<combination>` with `<step>` and `<combination>` non-empty, free of
`/`, and neither `.` nor `..`. -/
theorem C10_graph_inside_root_partial (spec : Spec) (ord : List Str → List Str) (r : XG)
    (h : stage spec ord = .ok r) (hc : CleanSpec spec) :
    ∀ i, i ∈ r.insts → ∃ a, Clean a ∧ (i.ws = spec.root ++ '/' :: a ∨
      ∃ b, Clean b ∧ i.ws = spec.root ++ '/' :: (a ++ '/' :: b)) := by
  intro i hi
  have hp := hc.plain
  cases stage_ws spec ord r h i hi with
  | flat st hk hn hw =>
    exact ⟨st.name, hc.steps _ hk, Or.inl (by rw [hw, flat_path _ _ hc.root_ne hc.root_end (hc.steps _ hk)])⟩
  | row st hk used r0 hu hsub0 hr0 hn hw =>
    simp only [hp, Bool.false_eq_true, ↓reduceIte] at hw
    exact ⟨st.name, hc.steps _ hk, Or.inr ⟨_, hc.combo used r0 hu hsub0 hr0,
      by rw [hw, row_path _ _ _ hc.root_ne hc.root_end (hc.steps _ hk) (hc.combo used r0 hu hsub0 hr0)]⟩⟩

end MaestroVerif.C10

namespace MaestroVerif.C10
open MaestroVerif.Expand MaestroVerif.Subst MaestroVerif.Gen

instance (a : Str) : Decidable (Clean a) := by unfold Clean; infer_instance

/-! non-vacuity: the demonstration study of C08 (one unparameterised step, one step expanded over two
combinations, one funnel step) meets `CleanSpec`, is staged, and its four workspaces are the four
directories one expects -/
theorem demo_cleanSpec : CleanSpec MaestroVerif.C08.demoSpec where
  root_ne := by decide
  root_end := by decide
  plain := rfl
  steps := by decide
  labels := by
    intro k r hk hr
    have hk' : k = "SIZE".toList := by simpa [MaestroVerif.C08.demoSpec] using hk
    have hr' : r < 2 := hr
    subst hk'
    have : r = 0 ∨ r = 1 := by omega
    rcases this with e | e <;> subst e <;> decide

example : (match stage MaestroVerif.C08.demoSpec id with
    | .ok r => r.insts.map (·.ws) == ["/out/pre".toList, "/out/run/SIZE.10".toList,
        "/out/run/SIZE.20".toList, "/out/post".toList]
    | .error _ => false) = true := by decide +kernel

/-- **the captured stdout / stderr of a locally run step lie directly inside the directory it was
launched in**: for a working directory that is not empty and does not end in `/` and a script
nickname without `/` (a `/` in it is the known finding C10-slash-in-label), both files are
`<cwd>/<name>.<pid>.out|err` - one level below `cwd`, whatever else the name holds -/
theorem C10_captured_output_inside (cwd name pid : Str) (hc : cwd ≠ []) (hl : cwd.getLast? ≠ some '/')
    (hn : '/' ∉ name) (hp : '/' ∉ pid) :
    (localCapturePaths cwd name pid).1 = cwd ++ ['/'] ++ (name ++ ['.'] ++ pid ++ ".out".toList) ∧
    (localCapturePaths cwd name pid).2 = cwd ++ ['/'] ++ (name ++ ['.'] ++ pid ++ ".err".toList) ∧
    '/' ∉ (name ++ ['.'] ++ pid ++ ".out".toList) ∧ '/' ∉ (name ++ ['.'] ++ pid ++ ".err".toList) := by
  have hhead : ∀ sfx : Str, (name ++ ['.'] ++ pid ++ sfx).head? ≠ some '/' := by
    intro sfx
    cases name with
    | nil => simp
    | cons c cs =>
      simp only [List.cons_append, List.head?_cons, ne_eq, Option.some.injEq]
      intro e; subst e; exact hn (List.mem_cons_self ..)
  have hcE : cwd.isEmpty = false := by cases cwd <;> simp_all
  have hlB : (cwd.getLast? == some '/') = false := by
    cases h : cwd.getLast? with
    | none => rfl
    | some c =>
      rw [h] at hl
      simp only [ne_eq, Option.some.injEq] at hl
      simp [hl]
  have hjoin : ∀ sfx : Str, pathJoin cwd (name ++ ['.'] ++ pid ++ sfx) = cwd ++ ['/'] ++ (name ++ ['.'] ++ pid ++ sfx) := by
    intro sfx
    unfold pathJoin
    have : ((name ++ ['.'] ++ pid ++ sfx).head? == some '/') = false := by
      cases h : (name ++ ['.'] ++ pid ++ sfx).head? with
      | none => rfl
      | some c =>
        have := hhead sfx
        rw [h] at this
        simp only [ne_eq, Option.some.injEq] at this
        simp [this]
    simp only [this, Bool.false_eq_true, ↓reduceIte, hcE, hlB, Bool.or_self]
  refine ⟨hjoin _, hjoin _, ?_, ?_⟩ <;>
    · simp only [List.mem_append, List.mem_singleton, not_or]
      exact ⟨⟨⟨hn, by decide⟩, hp⟩, by decide⟩

example : (localCapturePaths "/out/run/X.1".toList "run_X.1".toList "4711".toList).1 =
    "/out/run/X.1/run_X.1.4711.out".toList := by decide +kernel


end MaestroVerif.C10
