import MaestroVerif.Model.Expand
import MaestroVerif.Lemmas.SubstLemmas
import MaestroVerif.Lemmas.CsvLemmas
import MaestroVerif.Lemmas.ExpandNames
import MaestroVerif.Lemmas.ExpandPlace
import MaestroVerif.Lemmas.ExpandAdj
import MaestroVerif.Lemmas.ExpandInv
import MaestroVerif.Lemmas.ExpandNodes
import MaestroVerif.Lemmas.ExpandGate
import MaestroVerif.Lemmas.ExpandComplete
import MaestroVerif.Lemmas.ExpandAll
import MaestroVerif.Lemmas.ExpandDeps
import MaestroVerif.Lemmas.ExpandFinal

/-!
# C08 — Parameter expansion creates exactly the right instances and edges

Model: `Model/Expand.lean` (`Study.__init__`, `_stage`, combinations, naming),
tied to the real loading / staging path by the study-expansion correspondence.
The theorems below are about the named pieces of that model (`usesParam`,
`directParams`, `usedOf`, `instName`, `paramValues`) which `stageStep` is built
from, and (`C08_instance_depends_exactly`, `C08_unparameterised_depends_exactly`,
`C08_combos_record`) about what creating one instance does to the graph: its dependency set is
exactly the parents the property names, every other dependency set is untouched, the instance
carries its combination's values.  About the finished graph as a whole: instance names are pairwise
distinct, no edge dangles, every gating dependency is an adjacency edge, and
(`C08_every_combination_instantiated`) every staged step has an instance for every row of the table.
`C08_finished_deps_exact`: under the validator's guarantees and the prefix check on the step names
the dependency sets of the finished graph are exactly the declarative expansion.  Outside those
hypotheses (name collisions: known finding) the expansion monitor judges the real graph.
-/
namespace MaestroVerif.C08
open MaestroVerif.Expand MaestroVerif.Subst

/-- **Parameter-use detection is exact**: a text uses parameter `k` iff it
contains `$(k)`, `$(k.label)` or `$(k.name)` — the three tokens that
`Combination.apply` substitutes; a longer name (`$(kLONGER)`) does not count. -/
theorem C08_scanner_exact (k text : Str) :
    usesParam k text = true ↔
      ∃ pre post sfx, sfx ∈ [")".toList, ".label)".toList, ".name)".toList] ∧
        text = pre ++ ("$(".toList ++ k ++ sfx) ++ post := by
  simp only [usesParam, Bool.or_eq_true, occurs_iff, tok, tokLabel, tokName]
  constructor
  · rintro ((⟨pre, post, h⟩ | ⟨pre, post, h⟩) | ⟨pre, post, h⟩)
    · exact ⟨pre, post, _, by simp, h⟩
    · exact ⟨pre, post, _, by simp, h⟩
    · exact ⟨pre, post, _, by simp, h⟩
  · rintro ⟨pre, post, sfx, hs, h⟩
    simp only [List.mem_cons, List.not_mem_nil, or_false] at hs
    rcases hs with hs | hs | hs <;> subst hs
    · exact Or.inl (Or.inl ⟨pre, post, h⟩)
    · exact Or.inl (Or.inr ⟨pre, post, h⟩)
    · exact Or.inr ⟨pre, post, h⟩

/-- the defect repaired by "fix: parameter-use detection …" cannot come back
unnoticed: `P` is not used by a text that only mentions `PRESSURE` -/
example : usesParam "P".toList "echo $(PRESSURE) $(P_1) $(PX.label) ${P} $P".toList = false ∧
    usesParam "P".toList "echo $(PRESSURE) $(P.label)".toList = true := by decide

theorem C08_direct_params_exact (spec : Spec) (st : Step) (k : Str) :
    k ∈ directParams spec st ↔
      (k ∈ spec.params.map (·.key) ∧ ∃ t, t ∈ st.texts ∧ usesParam k t = true) := by
  simp [directParams, List.mem_filter, List.any_eq_true]

/-- **The used parameters of a step are exactly: those it mentions, those of
its ordinary dependencies, and those of the referenced workspaces that are not
funnel dependencies** (`usedTbl` holds the sets of the steps staged before). -/
theorem C08_used_closure (spec : Spec) (usedTbl : List (Str × List Str)) (st : Step)
    (used : List Str) (h : usedOf spec usedTbl st = .ok used) (k : Str) :
    k ∈ used ↔
      (k ∈ directParams spec st ∨
       (∃ d, d ∈ depsOf st ∧ k ∈ getAssoc usedTbl d) ∨
       (∃ w, w ∈ refsOf st ∧ w ∉ hubOf st ∧ k ∈ getAssoc usedTbl w)) :=
  usedOf_closure spec usedTbl st used h k

/-- a step that uses no parameter is instantiated under its own name, whatever
the combination -/
theorem C08_unparameterised_once (step : Str) (c₁ c₂ : Combo) :
    instName step [] c₁ = step ∧ instName step [] c₁ = instName step [] c₂ := by
  simp [instName]

/-- the name depends only on the *set* of used parameters -/
theorem sortDedup_congr {a b : List Str} (h : ∀ x, x ∈ a ↔ x ∈ b) (hs : sortDedup a = sortDedup b) :
    ∀ c : Combo, c.paramString a = c.paramString b := by
  intro c; simp [Combo.paramString, hs]

/-- **Instances are shared exactly between combinations that agree on the used
parameters** (`NamesInjective` here: labels contain no `.`, the separator of the
name; the collision that arises otherwise is known finding D9). -/
theorem C08_sharing_exact (step : Str) (used : List Str) (hu : used ≠ []) (c₁ c₂ : Combo)
    (hdot : ∀ k, k ∈ used → '.' ∉ lookup c₁.labels k ∧ '.' ∉ lookup c₂.labels k) :
    instName step used c₁ = instName step used c₂ ↔
      ∀ k, k ∈ used → lookup c₁.labels k = lookup c₂.labels k :=
  instName_inj step used hu c₁ c₂ hdot

/-- the parameters attached to an instance are the sorted used keys with this
combination's values -/
theorem C08_params_attached (c : Combo) (used : List Str) :
    (c.paramValues used).map (·.1) = sortDedup used ∧
    ∀ kv, kv ∈ c.paramValues used → kv.2 = lookup c.values kv.1 ∧ kv.1 ∈ used := by
  constructor
  · simp only [Combo.paramValues, List.map_map]
    conv => rhs; rw [← List.map_id (sortDedup used)]
    apply List.map_congr_left; intro k _; rfl
  · intro kv hkv
    simp only [Combo.paramValues, List.mem_map] at hkv
    obtain ⟨k, hk, rfl⟩ := hkv
    exact ⟨rfl, mem_sortDedup.mp hk⟩

/-! non-vacuity: the LULESH-like two-parameter table -/
def demoParams : List Param :=
  [{ key := "SIZE".toList, name := "SIZE".toList, tmpl := some "SIZE.%%".toList, labels := [],
     values := ["10".toList, "20".toList] },
   { key := "ITER".toList, name := "ITER".toList, tmpl := some "ITER.%%".toList, labels := [],
     values := ["5".toList, "5".toList] }]

example : instName "run".toList ["SIZE".toList, "ITER".toList] (combo demoParams 1) =
    "run_ITER.5.SIZE.20".toList ∧
    instName "post".toList ["ITER".toList] (combo demoParams 0) =
      instName "post".toList ["ITER".toList] (combo demoParams 1) := by decide

theorem sortDedup_isEmpty (l : List Str) : (sortDedup l).isEmpty = l.isEmpty := by
  cases l with
  | nil => rfl
  | cons a as =>
    have : a ∈ sortDedup (a :: as) := mem_sortDedup.mpr (List.mem_cons_self ..)
    cases h : sortDedup (a :: as) with
    | nil => rw [h] at this; cases this
    | cons _ _ => rfl

/-- **An instance depends on the same-combination instance of each ordinary dependency and on
all instances of each funnel dependency, and on nothing else** - for the instance created for
step `st` and parameter row `row` (`c` its combination), whatever order sets are iterated in:
right after it is placed its dependency set holds `_source` when the step has no dependency at
all, and otherwise exactly the instances `instName p used(p) c` of its ordinary dependencies `p`
and every instance recorded for each of its funnel dependencies; the dependency set of every
other instance is untouched; and the instance list has grown by this instance, carrying this
combination's values of the used parameters, unless an instance of that name existed. -/
theorem C08_instance_depends_exactly (spec : Spec) {ord : List Str → List Str} (ho : IsPermOracle ord)
    (st : Step) (used : List Str) (s s' : SS) (row : Nat)
    (hnew : s.combos.any (·.1 == instName st.name used (combo spec.params row)) = false)
    (hself : st.name ∉ hubOf st)
    (h : stageRow spec ord st used s row = .ok s') :
    (∀ x, x ∈ getAssoc s'.g.deps (instName st.name used (combo spec.params row)) ↔
      if depsOf st = [] ∧ hubOf st = [] then x = SOURCE
      else ((∃ p, p ∈ depsOf st ∧ x = instName p (getAssoc s.used p) (combo spec.params row)) ∨
            (∃ hb, hb ∈ hubOf st ∧ x ∈ getAssoc s.combos hb))) ∧
    (∀ k, k ≠ instName st.name used (combo spec.params row) →
      ∀ x, x ∈ getAssoc s'.g.deps k ↔ x ∈ getAssoc s.g.deps k) ∧
    (∃ inst : Inst, inst.name = instName st.name used (combo spec.params row) ∧
      inst.params = (combo spec.params row).paramValues used ∧
      s'.g.insts = if s.g.hasNode inst.name then s.g.insts else s.g.insts ++ [inst]) := by
  unfold stageRow at h
  simp only [hnew, Bool.false_eq_true, ↓reduceIte] at h
  split at h
  · cases h
  · rename_i cmd r _
    obtain ⟨p1, p2, p3, _⟩ := place_exact ho _ _ _ _ _ _ h
    refine ⟨?_, ?_, ⟨_, rfl, rfl, p3⟩⟩
    · intro x
      rw [p1]
      simp only [wiredTo, Bool.and_eq_true, sortDedup_isEmpty, List.isEmpty_iff]
      by_cases hr : depsOf st = [] ∧ hubOf st = []
      · simp only [hr, and_self, ↓reduceIte]
      · simp only [hr, ↓reduceIte]
        constructor
        · rintro (hx | ⟨hb, h1, h2⟩)
          · simp only [List.mem_map] at hx
            obtain ⟨p, hp, rfl⟩ := hx
            exact Or.inl ⟨p, mem_sortDedup.mp hp, rfl⟩
          · have hb' := mem_sortDedup.mp h1
            have hne : hb ≠ st.name := fun e => hself (e ▸ hb')
            rw [getAssoc_setAssoc_ne _ _ _ _ hne] at h2
            exact Or.inr ⟨hb, hb', h2⟩
        · rintro (⟨p, hp, rfl⟩ | ⟨hb, h1, h2⟩)
          · exact Or.inl (List.mem_map.mpr ⟨p, mem_sortDedup.mpr hp, rfl⟩)
          · have hne : hb ≠ st.name := fun e => hself (e ▸ h1)
            refine Or.inr ⟨hb, mem_sortDedup.mpr h1, ?_⟩
            rw [getAssoc_setAssoc_ne _ _ _ _ hne]; exact h2
    · intro k hk x
      exact p2 k hk x

/-- the same for a step that uses no parameter: one instance, named like the step, depending on
`_source` or on exactly its ordinary dependencies (which use no parameter either, see
`C08_used_closure`) and every instance of each funnel dependency -/
theorem C08_unparameterised_depends_exactly (spec : Spec) {ord : List Str → List Str}
    (ho : IsPermOracle ord) (st : Step) (s s' : SS)
    (hu : usedOf spec s.used st = .ok []) (hself : st.name ∉ hubOf st)
    (h : stageStep spec ord s st = .ok s') :
    (∀ x, x ∈ getAssoc s'.g.deps st.name ↔
      if depsOf st = [] ∧ hubOf st = [] then x = SOURCE
      else (x ∈ depsOf st ∨ ∃ hb, hb ∈ hubOf st ∧ x ∈ getAssoc s.combos hb)) ∧
    (∀ k, k ≠ st.name → ∀ x, x ∈ getAssoc s'.g.deps k ↔ x ∈ getAssoc s.g.deps k) ∧
    (∃ inst : Inst, inst.name = st.name ∧ inst.params = [] ∧
      s'.g.insts = if s.g.hasNode inst.name then s.g.insts else s.g.insts ++ [inst]) := by
  unfold stageStep at h
  simp only [hu, List.isEmpty_nil, ↓reduceIte] at h
  split at h
  · cases h
  · obtain ⟨p1, p2, p3, _⟩ := place_exact ho _ _ _ _ _ _ h
    refine ⟨?_, ?_, ⟨_, rfl, rfl, p3⟩⟩
    · intro x
      rw [p1]
      simp only [wiredTo, Bool.and_eq_true, sortDedup_isEmpty, List.isEmpty_iff]
      by_cases hr : depsOf st = [] ∧ hubOf st = []
      · simp only [hr, and_self, ↓reduceIte]
      · simp only [hr, ↓reduceIte]
        constructor
        · rintro (hx | ⟨hb, h1, h2⟩)
          · exact Or.inl (mem_sortDedup.mp hx)
          · have hb' := mem_sortDedup.mp h1
            have hne : hb ≠ st.name := fun e => hself (e ▸ hb')
            rw [getAssoc_setAssoc_ne _ _ _ _ hne, getAssoc_setAssoc_ne _ _ _ _ hne] at h2
            exact Or.inr ⟨hb, hb', h2⟩
        · rintro (hx | ⟨hb, h1, h2⟩)
          · exact Or.inl (mem_sortDedup.mpr hx)
          · have hne : hb ≠ st.name := fun e => hself (e ▸ h1)
            refine Or.inr ⟨hb, mem_sortDedup.mpr h1, ?_⟩
            rw [getAssoc_setAssoc_ne _ _ _ _ hne, getAssoc_setAssoc_ne _ _ _ _ hne]; exact h2
    · intro k hk x
      exact p2 k hk x

/-- **the adjacency table gets the same edges**: placing an instance makes it a child of exactly
the parents it was wired to and changes no other child list -/
theorem C08_children_exact {ord : List Str → List Str} (ho : IsPermOracle ord) (s s' : SS) (inst : Inst)
    (isRoot : Bool) (parents hubD : List Str) (h : place ord s inst isRoot parents hubD = .ok s') :
    ∀ k x, x ∈ getAssoc s'.g.adj k ↔
      (x ∈ getAssoc s.g.adj k ∨
        (x = inst.name ∧ wiredTo isRoot parents hubD s.combos k ∧ k ≠ inst.name)) :=
  place_adj_exact ho s s' inst isRoot parents hubD h

/-- **edges are recorded consistently in both tables**: for a new instance name, `p` is in the
instance's dependency set (what gates its launch, C01) exactly when the instance is in `p`'s
child list (what failure propagation and the status listing walk, C02 / C12) -/
theorem C08_edges_recorded_consistently {ord : List Str → List Str} (ho : IsPermOracle ord)
    (s s' : SS) (inst : Inst) (isRoot : Bool) (parents hubD : List Str)
    (h : place ord s inst isRoot parents hubD = .ok s')
    (hfresh : ∀ k, inst.name ∉ getAssoc s.g.adj k) (p : Str) (hp : p ≠ inst.name) :
    p ∈ getAssoc s'.g.deps inst.name ↔ inst.name ∈ getAssoc s'.g.adj p :=
  place_edges_consistent ho s s' inst isRoot parents hubD h hfresh p hp

/-- **exactly one instance per name, in the finished graph**: whatever the specification and the
iteration order, the expansion never holds two instances of the same name, and every instance is
a node of the graph (`Lemmas/ExpandInv.lean`: the property is preserved by every placement, and
`stage_inv` lifts any such property to the whole of `stage`) -/
theorem C08_exactly_one_instance_per_name (spec : Spec) (ord : List Str → List Str) (r : XG)
    (h : stage spec ord = .ok r) :
    (r.insts.map (·.name)).Nodup ∧ ∀ i, i ∈ r.insts → r.hasNode i.name = true :=
  stage_uniqueNames spec ord r h

/-- **no dangling edge, in the finished graph**: every member of a dependency set and every child in
the adjacency table is a node - an instance or `_source` - for every specification and iteration
order (an edge to a step that was never instantiated is refused while staging, `edgeSrcMissing`) -/
theorem C08_no_dangling_edge (spec : Spec) (ord : List Str → List Str) (r : XG)
    (h : stage spec ord = .ok r) :
    (∀ k x, x ∈ getAssoc r.deps k → r.hasNode x = true) ∧
    (∀ k x, x ∈ getAssoc r.adj k → r.hasNode x = true) :=
  stage_noDangling spec ord r h

/-- **every gating dependency is an adjacency edge, in the finished graph**: whenever `p` is in the
dependency set of `c` - the set whose emptying lets `c` be launched (C01) - `c` is a child of `p`
in the adjacency table - the table the failure sweep walks (C02): a step can never be left
waiting for a parent whose failure would not reach it.  (The converse - every adjacency edge is
also gating - is what the two seeded changes C01-b and C01-e break; in the model it needs the
parents of a re-placed instance to be the same, i.e. labels without the name separator, and is
decided by the study-level launch monitor.) -/
theorem C08_gating_edges_are_adjacency_edges (spec : Spec) (ord : List Str → List Str) (r : XG)
    (h : stage spec ord = .ok r) :
    ∀ p c, p ≠ c → p ∈ getAssoc r.deps c → c ∈ getAssoc r.adj p :=
  stage_depsInAdj spec ord r h

/-- the lifting itself: a property of the graph that no placement destroys holds of every
expansion (used above; stated here because it is how the per-placement theorems of this file
speak about the finished graph) -/
theorem C08_stage_invariant {P : XG → Prop} (hP : PlaceInv P) (spec : Spec) (ord : List Str → List Str)
    (r : XG) (h : stage spec ord = .ok r) (h0 : P (initSS spec.root).g) : P r :=
  stage_inv hP spec ord r h h0

/-- the table the funnel edges are read from records the instances of a step as they are created -/
theorem C08_combos_record (spec : Spec) (ord : List Str → List Str) (st : Step) (used : List Str)
    (s s' : SS) (row : Nat)
    (hnew : s.combos.any (·.1 == instName st.name used (combo spec.params row)) = false)
    (h : stageRow spec ord st used s row = .ok s') :
    (∀ x, x ∈ getAssoc s'.combos st.name ↔
      (x ∈ getAssoc s.combos st.name ∨ x = instName st.name used (combo spec.params row))) ∧
    (∀ k, k ≠ st.name → getAssoc s'.combos k = getAssoc s.combos k) := by
  unfold stageRow at h
  simp only [hnew, Bool.false_eq_true, ↓reduceIte] at h
  split at h
  · cases h
  · unfold place at h
    split at h
    · cases h
    · simp only [Except.ok.injEq] at h
      subst h
      simp only
      refine ⟨fun x => ?_, fun k hk => getAssoc_setAssoc_ne _ _ _ _ hk⟩
      rw [getAssoc_setAssoc_self, mem_union]
      simp

/-! non-vacuity: in the expansion of a parameterised study with a funnel, `run_SIZE.10` depends on
`pre` only, `post` on `pre` and on every instance of `run` -/
def demoSpec : Spec :=
  { root := "/out".toList, hashWs := false, rlimit := 1,
    params := [{ key := "SIZE".toList, name := "SIZE".toList, tmpl := some "SIZE.%%".toList, labels := [],
                 values := ["10".toList, "20".toList] }],
    steps := [{ name := "pre".toList, cmd := "echo pre".toList, restart := [], depends := [],
                texts := ["echo pre".toList], extras := [] },
              { name := "run".toList, cmd := "echo $(SIZE)".toList, restart := [], depends := ["pre".toList],
                texts := ["echo $(SIZE)".toList], extras := [] },
              { name := "post".toList, cmd := "echo post".toList, restart := [],
                depends := ["run_*".toList, "pre".toList], texts := ["echo post".toList], extras := [] }],
    md5 := [] }

example : (match stage demoSpec id with
    | .ok r =>
      getAssoc r.deps "pre".toList == ["_source".toList]
        && getAssoc r.deps "run_SIZE.10".toList == ["pre".toList]
        && getAssoc r.deps "post".toList == ["pre".toList, "run_SIZE.10".toList, "run_SIZE.20".toList]
        && (r.insts.map (·.params)) == [[], [("SIZE".toList, "10".toList)], [("SIZE".toList, "20".toList)], []]
        && getAssoc r.adj "pre".toList == ["run_SIZE.10".toList, "run_SIZE.20".toList, "post".toList]
        && getAssoc r.adj "run_SIZE.20".toList == ["post".toList]
    | .error _ => false) = true := by decide +kernel

/-! ### proved counterexample of the unrestricted statement (known finding C08-name-collision)

Instance names are `step_<labels joined by '.'>`; nothing keeps two combinations that differ in a
used parameter from rendering to the same string.  `A ∈ {1.2, 1}`, `B ∈ {3, 2.3}` with the labels
`%%`: the combinations `(1.2, 3)` and `(1, 2.3)` of the step `both` are both called `both_1.2.3`. -/
def collideSpec : Spec :=
  { root := "/out".toList, hashWs := false, rlimit := 1,
    params := [{ key := "A".toList, name := "A".toList, tmpl := some "%%".toList, labels := [],
                 values := ["1.2".toList, "1".toList] },
               { key := "B".toList, name := "B".toList, tmpl := some "%%".toList, labels := [],
                 values := ["3".toList, "2.3".toList] }],
    steps := [{ name := "pa".toList, cmd := "echo $(A)".toList, restart := [], depends := [],
                texts := ["echo $(A)".toList], extras := [] },
              { name := "both".toList, cmd := "echo $(A) $(B)".toList, restart := [], depends := ["pa".toList],
                texts := ["echo $(A) $(B)".toList], extras := [] }],
    md5 := [] }

/-- **C08 is false of the code for colliding names**: one instance of `both` for two combinations
that differ in both parameters; it carries the values of the first, is a child of both instances of
`pa`, and is gated only by the parent of the second (`pa_1`, whose value of `A` it does not carry). -/
theorem C08_counterexample_name_collision :
    (match stage collideSpec id with
     | .ok r =>
       r.insts.map (·.name) == ["pa_1.2".toList, "pa_1".toList, "both_1.2.3".toList]
         && (r.insts.map (·.params)) == [[("A".toList, "1.2".toList)], [("A".toList, "1".toList)],
              [("A".toList, "1.2".toList), ("B".toList, "3".toList)]]
         && getAssoc r.adj "pa_1.2".toList == ["both_1.2.3".toList]
         && getAssoc r.adj "pa_1".toList == ["both_1.2.3".toList]
         && getAssoc r.deps "both_1.2.3".toList == ["pa_1".toList]
     | .error _ => false) = true := by decide +kernel

/-- **every combination gets its instance, in the finished graph** (completeness of the expansion):
`stageSS` is the staging loop with the whole staging state as its result and `stage` is its graph;
for every step `k` that was staged - every key of the used-parameter table other than `_source` -
the finished graph holds an instance called `k` when `k` uses no parameter, and an instance
`k_<labels of the used parameters>` for *every* row of the parameter table otherwise: no
combination is dropped.  Hypothesis `NoClash`: no instance name of a parameterised step is a step
name (or `_source`); otherwise the row is skipped by `if combo_str in self.step_combos: continue`,
which is part of the known finding C08-name-collision. -/
theorem C08_every_combination_instantiated (spec : Spec) (hc : NoClash spec)
    (ord : List Str → List Str) (sf : SS) (h : stageSS spec ord = .ok sf)
    (k : Str) (hk : sf.used.any (·.1 == k) = true) (hsrc : k ≠ SOURCE) :
    stage spec ord = .ok sf.g ∧
    (∃ st, st ∈ spec.steps ∧ st.name = k) ∧
    (if (getAssoc sf.used k).isEmpty then ∃ i, i ∈ sf.g.insts ∧ i.name = k
     else ∀ row, row < nRows spec.params →
       ∃ i, i ∈ sf.g.insts ∧ i.name = instName k (getAssoc sf.used k) (combo spec.params row)) := by
  have hst : stage spec ord = .ok sf.g := by rw [stage_eq_stageSS, h]
  have hI := stageSS_instantiated spec hc ord sf h
  have hN := stage_nodesAreInsts spec ord sf.g hst
  have hmem := hI.1 k (Or.inr hk)
  have hstep : ∃ st, st ∈ spec.steps ∧ st.name = k := by
    rcases List.mem_cons.mp hmem with e | e
    · exact absurd e hsrc
    · obtain ⟨st, h1, h2⟩ := List.mem_map.mp e
      exact ⟨st, h1, h2⟩
  refine ⟨hst, hstep, ?_⟩
  have h2 := hI.2 k hk
  split
  · rename_i he
    simp only [he, ↓reduceIte] at h2
    rcases hN k h2 with e | e
    · exact absurd e hsrc
    · exact e
  · rename_i he
    simp only [he] at h2
    intro row hrow
    rcases hN _ (h2 row hrow) with e | e
    · exfalso
      obtain ⟨st, h1, rfl⟩ := hstep
      apply hc st h1 (getAssoc sf.used st.name) row (by simpa using he)
      rw [e]; exact List.mem_cons_self ..
    · exact e

/-- `NoClash` follows from a check on the step names alone: no step name followed by `_` begins
`_source` or a step name -/
theorem C08_noClash_decidable (spec : Spec) (h : noClashB spec = true) : NoClash spec :=
  noClash_of_noClashB spec h

/-! non-vacuity: the demonstration study meets `NoClash`, staging succeeds, `run` is recorded with
the parameter `SIZE` and has its two instances, `pre` and `post` have one each -/
example : noClashB demoSpec = true := by decide +kernel

example : (match stageSS demoSpec id with
    | .ok sf =>
      sf.used.map (·.1) == ["_source".toList, "pre".toList, "run".toList, "post".toList]
        && getAssoc sf.used "run".toList == ["SIZE".toList]
        && sf.g.insts.map (·.name) == ["pre".toList, "run_SIZE.10".toList, "run_SIZE.20".toList, "post".toList]
    | .error _ => false) = true := by decide +kernel


/-- **every step of the specification is staged** (`Lemmas/ExpandAll.lean`): the flow that
`Study.add_step` builds is a well-formed acyclic graph that holds every step name, `topological_sort`
lists every node of such a graph (C14), and the staging loop files every name it visits - so when
staging succeeds every step of the specification (none being called `_source`, which the validator
refuses) is a key of the used-parameter table -/
theorem C08_every_step_staged (spec : Spec) (ord : List Str → List Str) (sf : SS)
    (h : stageSS spec ord = .ok sf) (hsrc : ∀ st, st ∈ spec.steps → st.name ≠ SOURCE) :
    ∀ st, st ∈ spec.steps → sf.used.any (·.1 == st.name) = true :=
  stageSS_all_staged spec ord sf h hsrc

/-- **no step and no combination is dropped**: for every step of the specification the finished
graph holds its instance (no parameter used) or one instance per row of the parameter table
(`C08_every_step_staged` and `C08_every_combination_instantiated` together) -/
theorem C08_no_step_dropped (spec : Spec) (hc : NoClash spec)
    (hsrc : ∀ st, st ∈ spec.steps → st.name ≠ SOURCE) (ord : List Str → List Str) (sf : SS)
    (h : stageSS spec ord = .ok sf) (st : Step) (hst : st ∈ spec.steps) :
    if (getAssoc sf.used st.name).isEmpty then ∃ i, i ∈ sf.g.insts ∧ i.name = st.name
    else ∀ row, row < nRows spec.params →
      ∃ i, i ∈ sf.g.insts ∧ i.name = instName st.name (getAssoc sf.used st.name) (combo spec.params row) :=
  (C08_every_combination_instantiated spec hc ord sf h st.name
    (C08_every_step_staged spec ord sf h hsrc st hst) (hsrc st hst)).2.2

example : ∀ st, st ∈ demoSpec.steps → st.name ≠ SOURCE := by decide +kernel

/-- **the dependency sets one step's staging leaves behind are exact** (`Lemmas/ExpandDeps.lean`):
when `stageStep` returns for a step of the specification, for every row of the table the dependency
set of the row's instance is exactly what a row *with the same instance name* is owed (`Owed`:
`_source` for a step without dependencies, otherwise the same-combination instance of every
ordinary dependency and every recorded instance of every funnel dependency, read from the tables as
the step leaves them) - an instance shared by several rows is placed once per row, each placement
empties the set and wires it again, so the last one stands; no other dependency set has changed;
the tables have changed in the step's own entries only; every new child entry of the adjacency
table is an instance of this step below a parent one of its rows is owed (`AdjWitness`).  For every specification without a name
clash, every iteration oracle, every staging state whose combination table is keyed by step names. -/
theorem C08_step_deps_exact (spec : Spec) (hc : NoClash spec) {ord : List Str → List Str}
    (ho : IsPermOracle ord) (s s' : SS) (st : Step) (hst : st ∈ spec.steps)
    (hkeys : ∀ k, s.combos.any (·.1 == k) = true → k ∈ SOURCE :: spec.steps.map (·.name))
    (hself : st.name ∉ hubOf st) (h : stageStep spec ord s st = .ok s') :
    DepsOK spec s' st ∧
    (∀ k, ¬ InstNameOf spec st (getAssoc s'.used st.name) k →
      ∀ x, x ∈ getAssoc s'.g.deps k ↔ x ∈ getAssoc s.g.deps k) ∧
    (∀ k, k ≠ st.name → getAssoc s'.used k = getAssoc s.used k ∧ getAssoc s'.combos k = getAssoc s.combos k) ∧
    (∀ k x, x ∈ getAssoc s'.g.adj k → (x ∈ getAssoc s.g.adj k ∨ (k ≠ x ∧ AdjWitness spec s' st k x))) :=
  stageStep_deps spec hc ho s s' st hst hkeys hself h

/-- **the dependency sets of the finished graph are exactly the declarative expansion**
(`Lemmas/ExpandFinal.lean`).  For every specification whose step names pass the prefix check
`noClashB` (no step name followed by `_` begins `_source` or a step name - so no instance name is a
step name and instances of different steps never share a name), are pairwise different, are not
`_source`, and none of whose steps lists itself as a funnel dependency (the last three are what the
validator enforces), and for every iteration oracle: when staging succeeds, `stage` returns the
graph of `stageSS`, and for every step of the specification

* that uses no parameter: its instance depends on `_source` when the step has no dependency, and
  otherwise on exactly its ordinary dependencies and every instance recorded for each funnel
  dependency;
* that uses parameters: for every row of the table, the dependency set of the row's instance is
  exactly what a row with the same instance name is owed - the same-combination instance of every
  ordinary dependency, every instance of every funnel dependency, or `_source`

(`DepsOK`, `Owed`), read from the tables as staging leaves them (`used_params`, `step_combos`,
which the correspondence compares with the real ones after every staging).  The proof carries
`StagedOK` through the loop: every dependency of a filed step is an edge of the abstract flow
(`buildFlow_edges`), `topological_sort` puts parents first and lists every node once (C14), so a
step's tables and dependency sets are final once it has been staged (`stagedOK_step`). -/
theorem C08_finished_deps_exact (spec : Spec) (hB : noClashB spec = true)
    (hselfAll : ∀ st, st ∈ spec.steps → st.name ∉ hubOf st)
    (hsrc : ∀ st, st ∈ spec.steps → st.name ≠ SOURCE)
    (hnames : (spec.steps.map (·.name)).Nodup)
    {ord : List Str → List Str} (ho : IsPermOracle ord) (sf : SS) (h : stageSS spec ord = .ok sf) :
    stage spec ord = .ok sf.g ∧ ∀ st, st ∈ spec.steps → DepsOK spec sf st :=
  ⟨by rw [stage_eq_stageSS, h],
   fun st hst => ((stageSS_deps_exact spec (noClash_of_noClashB spec hB) (crossInj_of_noClashB spec hB)
     hselfAll hsrc hnames ho sf h).1 st hst).1⟩

/-- **… row by row, when the instance name determines the labels** (`NameInj`: two rows that give a
step the same instance name agree on the labels of its used parameters - `C08_nameInj_of_dotFree`:
so it is when no label holds the `.` that joins them; the complement is the other half of the known
finding C08-name-collision): the dependency set of the
instance of *every* row is exactly what that row is owed - rows that share an instance name are
owed the same parents, because the used parameters of a dependency are among the step's own
(`usedOf_closure`, carried to the end of staging) and the name determines the labels of the used
parameters (`C08_sharing_exact`). -/
theorem C08_finished_deps_exact_per_row (spec : Spec) (hB : noClashB spec = true) (hdot : NameInj spec)
    (hselfAll : ∀ st, st ∈ spec.steps → st.name ∉ hubOf st)
    (hsrc : ∀ st, st ∈ spec.steps → st.name ≠ SOURCE)
    (hnames : (spec.steps.map (·.name)).Nodup)
    {ord : List Str → List Str} (ho : IsPermOracle ord) (sf : SS) (h : stageSS spec ord = .ok sf) :
    ∀ st, st ∈ spec.steps → DepsExact spec sf st := by
  intro st hst
  obtain ⟨h1, h2⟩ := (stageSS_deps_exact spec (noClash_of_noClashB spec hB) (crossInj_of_noClashB spec hB)
    hselfAll hsrc hnames ho sf h).1 st hst
  exact depsExact_of_ok spec hdot sf st h1 h2

theorem C08_nameInj_of_dotFree (spec : Spec) (hdot : DotFree spec) : NameInj spec :=
  nameInj_of_dotFree spec hdot

/-- the used parameters of an ordinary dependency are among the step's own, in the final tables -/
theorem C08_used_closed_finally (spec : Spec) (hB : noClashB spec = true)
    (hselfAll : ∀ st, st ∈ spec.steps → st.name ∉ hubOf st)
    (hsrc : ∀ st, st ∈ spec.steps → st.name ≠ SOURCE)
    (hnames : (spec.steps.map (·.name)).Nodup)
    {ord : List Str → List Str} (ho : IsPermOracle ord) (sf : SS) (h : stageSS spec ord = .ok sf) :
    ∀ st, st ∈ spec.steps → ∀ p, p ∈ depsOf st → ∀ k, k ∈ getAssoc sf.used p → k ∈ getAssoc sf.used st.name :=
  fun st hst => ((stageSS_deps_exact spec (noClash_of_noClashB spec hB) (crossInj_of_noClashB spec hB)
    hselfAll hsrc hnames ho sf h).1 st hst).2

/-- **the two tables of the finished graph hold the same edges** - the hypothesis `par` of the
execution model's well-formed configurations (`WFCfg.par`, C01-C07), here *proved* of what staging
builds: under the validator's guarantees, the prefix check on the step names and names that
determine their labels, `c` is a child of `p` in the adjacency table (what failure propagation and
the status listing walk) exactly when `p` is in the dependency set of `c` (what gates its launch).
One direction holds for every specification (`C08_gating_edges_are_adjacency_edges`); the other is
what the known finding C08-name-collision breaks (`C08_counterexample_name_collision`: a child of
two parents gated by one). -/
theorem C08_finished_graph_par (spec : Spec) (hB : noClashB spec = true) (hinj : NameInj spec)
    (hselfAll : ∀ st, st ∈ spec.steps → st.name ∉ hubOf st)
    (hsrc : ∀ st, st ∈ spec.steps → st.name ≠ SOURCE)
    (hnames : (spec.steps.map (·.name)).Nodup)
    {ord : List Str → List Str} (ho : IsPermOracle ord) (sf : SS) (h : stageSS spec ord = .ok sf) :
    ∀ p c, p ≠ c → (c ∈ getAssoc sf.g.adj p ↔ p ∈ getAssoc sf.g.deps c) :=
  stageSS_par spec (noClash_of_noClashB spec hB) (crossInj_of_noClashB spec hB) hinj hselfAll hsrc hnames ho sf h

/-- what the check on the names buys: instance names of steps with different names never coincide -/
theorem C08_names_cross_injective (spec : Spec) (hB : noClashB spec = true) : CrossInj spec :=
  crossInj_of_noClashB spec hB

/-! non-vacuity: the demonstration study meets every hypothesis (the identity oracle is a
permutation oracle) -/
example : (∀ st, st ∈ demoSpec.steps → st.name ∉ hubOf st) ∧ (demoSpec.steps.map (·.name)).Nodup := by
  decide +kernel
example : IsPermOracle id := fun l => List.Perm.refl l

/-- the demonstration study with labels that hold no `.` (`SIZE-%%`) -/
def demoSpecDash : Spec :=
  { demoSpec with params := [{ key := "SIZE".toList, name := "SIZE".toList, tmpl := some "SIZE-%%".toList,
                               labels := [], values := ["10".toList, "20".toList] }] }

example : dotFreeB demoSpecDash = true ∧ noClashB demoSpecDash = true := by decide +kernel

/-- `DotFree` is a check over the table -/
theorem C08_dotFree_decidable (spec : Spec) (h : dotFreeB spec = true) : DotFree spec :=
  dotFree_of_dotFreeB spec h

end MaestroVerif.C08
