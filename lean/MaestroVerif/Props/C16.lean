import MaestroVerif.Lemmas.SchedLemmas
import MaestroVerif.Model.SchedVocab

/-!
# C16 — Scheduler output is interpreted per job id and never over-claims

State tables: `Gen/SchedStates.lean`, regenerated from the adapters' `_state`
functions on every run, so these theorems are re-checked against what the code
says *now*.  Vocabulary and classification: `Model/SchedVocab.lean`
(hand-entered specification).  Parsing: `Model/Sched.lean`, tied to the real
`check_jobs` by the parsing correspondence of `harness/props/c16.py`.
-/
namespace MaestroVerif.C16
open MaestroVerif.Sched MaestroVerif.Gen MaestroVerif.SchedVocab

/-- the Maestro states on which the execution graph resolves a step -/
def isTerminal : State → Bool
  | .FINISHED | .FAILED | .TIMEDOUT | .HWFAILURE | .UNKNOWN | .CANCELLED => true
  | _ => false

/-! ### a job the scheduler reports as alive is never mapped to a terminal state -/

theorem C16_alive_never_terminal_lsf : ∀ s ∈ lsfAlive, isTerminal (lsfState s) = false := by decide

theorem C16_alive_never_terminal_flux : ∀ s ∈ fluxAlive, isTerminal (fluxState s) = false := by decide

/-- Slurm: every alive state except STOPPED (known finding, below) -/
theorem C16_alive_never_terminal_slurm_partial :
    ∀ s ∈ slurmAlive, s ≠ "ST" → s ≠ "STOPPED" → isTerminal (slurmState s) = false := by decide

/-- proved counterexample of the full statement for Slurm: a STOPPED job (it
keeps its allocation and can be resumed with SIGCONT) is mapped to FAILED /
UNKNOWN.  Recorded in `known_findings.json` (C16-slurm-stopped). -/
theorem C16_alive_counterexample_slurm_stopped :
    "ST" ∈ slurmAlive ∧ slurmState "ST" = .FAILED ∧
    "STOPPED" ∈ slurmAlive ∧ slurmState "STOPPED" = .UNKNOWN := by decide

/-! ### only the scheduler's success state maps to FINISHED — for *every* string -/

theorem C16_only_success_finishes_slurm (s : String) (h : slurmState s = .FINISHED) :
    s ∈ slurmSuccess := by
  unfold slurmState at h
  repeat' split at h
  all_goals first | (exact absurd h (by decide)) | (simp_all [slurmSuccess])

theorem C16_only_success_finishes_lsf (s : String) (h : lsfState s = .FINISHED) :
    s ∈ lsfSuccess := by
  unfold lsfState at h
  repeat' split at h
  all_goals first | (exact absurd h (by decide)) | (simp_all [lsfSuccess])

theorem C16_only_success_finishes_flux (s : String) (h : fluxState s = .FINISHED) :
    s ∈ fluxSuccess := by
  unfold fluxState at h
  repeat' split at h
  all_goals first | (exact absurd h (by decide)) | (simp_all [fluxSuccess])

/-- the success states do map to FINISHED and documented failures never do -/
theorem C16_tables_sane :
    (∀ s ∈ slurmSuccess, slurmState s = .FINISHED) ∧ (∀ s ∈ lsfSuccess, lsfState s = .FINISHED) ∧
    (∀ s ∈ fluxSuccess, fluxState s = .FINISHED) ∧
    (∀ s ∈ slurmTerminalBad, slurmState s ≠ .FINISHED ∧ isTerminal (slurmState s) = true) ∧
    (∀ s ∈ lsfTerminalBad, lsfState s ≠ .FINISHED ∧ isTerminal (lsfState s) = true) ∧
    (∀ s ∈ fluxTerminalBad, fluxState s ≠ .FINISHED ∧ isTerminal (fluxState s) = true) := by decide

/-! ### per-job-id exactness of the parsers -/

/-- **Every queried job gets the state of the last row whose id field equals its
id exactly (never a prefix, an array row `id_k` or a job step `id.step`), and a
job named by no row keeps "no information"**: for any rows (other users' jobs,
blank lines, padding, any order). -/
theorem C16_parse_exact (f : Str → RowAct) (rows : List Str) (ids : List Str) (st' : Status)
    (h : foldRows f rows (Status.init ids) = .ok st') (id : Str) :
    st'.get id =
      (if (Status.init ids).has id = true then lastUpd id (rows.map f) else none) := by
  have := (foldActs_exact (rows.map f) (Status.init ids) st' h id).2
  rw [this, init_get]
  split
  · cases lastUpd id (rows.map f) <;> rfl
  · rfl

/-- absent from the output ⇒ `None` -/
theorem C16_absent_is_none (f : Str → RowAct) (rows : List Str) (ids : List Str) (st' : Status)
    (h : foldRows f rows (Status.init ids) = .ok st') (id : Str)
    (habs : lastUpd id (rows.map f) = none) : st'.get id = none := by
  rw [C16_parse_exact f rows ids st' h id, habs]; simp

/-- a row updates only the entry whose key is its own id field -/
theorem C16_row_concerns_own_id (id id' : Str) (v : State) (as : List RowAct) (hne : id' ≠ id)
    (h : lastUpd id as = none) : lastUpd id (RowAct.upd id' (.ok v) :: as) = none := by
  simp [lastUpd, h, hne]

/-! ### exit codes of the query commands -/

theorem C16_combine (cs : List JobStatusCode) :
    (combine cs = .OK ↔ .OK ∈ cs) ∧
    (combine cs = .NOJOBS ↔ (.OK ∉ cs ∧ ∀ c ∈ cs, c = .NOJOBS)) := by
  unfold combine
  constructor
  · constructor
    · intro h; split at h
      · rename_i h1; simpa using h1
      · split at h <;> cases h
    · intro h; simp [h]
  · constructor
    · intro h; split at h
      · cases h
      · rename_i h1
        split at h
        · rename_i h2; exact ⟨by simpa using h1, by simpa using h2⟩
        · cases h
    · rintro ⟨h1, h2⟩
      have : (cs.any fun x => x == JobStatusCode.OK) = false := by
        simp only [List.any_eq_false, beq_iff_eq]
        intro x hx hxe; exact h1 (hxe ▸ hx)
      simp only [this, Bool.false_eq_true, ↓reduceIte]
      have : (cs.all fun x => x == JobStatusCode.NOJOBS) = true := by simpa using h2
      simp [this]

/-- **a failing query never yields OK, and fabricates no state**: when `squeue`
fails and `sacct` fails (or is not consulted) the code is not OK and every
queried job stays `None`. -/
theorem C16_slurm_failing_query (ids : List Str) (sq : Proc) (acct : List Str → Proc)
    (hq : sq.rc ≠ 0) (ha : ∀ req, (acct req).rc ≠ 0) :
    ∃ c, slurmCheck ids sq acct = .ok (c, Status.init ids) ∧ c ≠ .OK := by
  have h1 : (sq.rc == 0) = false := by simpa using hq
  have h2 : ((acct (Status.init ids).missing).rc == 0) = false := by simpa using ha _
  simp only [slurmCheck, squeue, sacct, h1, h2, Bool.false_eq_true, ↓reduceIte]
  have hc1 : rcCode sq.rc ≠ .OK := by unfold rcCode; simp [h1]; split <;> simp
  have hc2 : rcCode (acct (Status.init ids).missing).rc ≠ .OK := by
    unfold rcCode; simp [h2]; split <;> simp
  split
  · refine ⟨_, rfl, ?_⟩
    intro h
    have := (C16_combine [rcCode sq.rc, rcCode (acct (Status.init ids).missing).rc]).1.mp h
    simp only [List.mem_cons, List.not_mem_nil, or_false] at this
    rcases this with h' | h'
    · exact hc1 h'.symm
    · exact hc2 h'.symm
  · refine ⟨_, rfl, ?_⟩
    intro h
    have := (C16_combine [rcCode sq.rc]).1.mp h
    simp only [List.mem_cons, List.not_mem_nil, or_false] at this
    exact hc1 this.symm

/-- **What the queue command reports about a job is what Maestro reports**: the accounting
command is asked only about the jobs the queue did not list, so - as long as its answer
concerns, among Maestro's jobs, only the ones asked about (`Honest`, which the `--jobs=`
option of `sacct` provides) - a state read from `squeue` is never replaced by an
accounting record (which may lag behind: a requeued job that runs again, a job whose
epilog is still running). -/
theorem C16_squeue_answer_kept (ids : List Str) (sq : Proc) (acct : List Str → Proc)
    (hon : Honest ids acct) (c1 : JobStatusCode) (st1 : Status)
    (h1 : squeue (Status.init ids) sq = .ok (c1, st1))
    (c : JobStatusCode) (st : Status) (h : slurmCheck ids sq acct = .ok (c, st))
    (id : Str) (v : State) (hv : st1.get id = some v) : st.get id = some v := by
  simp only [slurmCheck, h1] at h
  split at h
  · -- the accounting command was consulted
    cases hs : sacct st1 (acct st1.missing) with
    | error e => simp [hs] at h
    | ok r =>
      obtain ⟨c2, st2⟩ := r
      simp only [hs, Except.ok.injEq, Prod.mk.injEq] at h
      obtain ⟨_, rfl⟩ := h
      unfold sacct at hs
      split at hs
      · cases hf : foldRows sacctAct ((splitOnChar '\n' (acct st1.missing).out).drop 2) st1 with
        | error e => simp [hf] at hs
        | ok st' =>
          simp only [hf, Except.ok.injEq, Prod.mk.injEq] at hs
          obtain ⟨_, rfl⟩ := hs
          have ex := (foldActs_exact _ st1 st' hf id).2
          -- the queue's `has` is that of the initial dict
          have hhas : ∀ i, st1.has i = true → i ∈ ids := by
            intro i hi
            have hsq := h1
            unfold squeue at hsq
            split at hsq
            · split at hsq
              · rename_i s1 hf1
                simp only [Except.ok.injEq, Prod.mk.injEq] at hsq
                obtain ⟨_, rfl⟩ := hsq
                have := (foldActs_exact _ (Status.init ids) _ hf1 i).1
                rw [this] at hi
                exact init_has ids i hi
              · cases hsq
            · simp only [Except.ok.injEq, Prod.mk.injEq] at hsq
              obtain ⟨_, rfl⟩ := hsq
              exact init_has ids i hi
          have hnone : lastUpd id (((splitOnChar '\n' (acct st1.missing).out).drop 2).map sacctAct) = none := by
            apply lastUpd_none
            intro a ha s heq
            simp only [List.mem_map] at ha
            obtain ⟨row, hrow, hact⟩ := ha
            have hid := sacctAct_id row id (.ok s) (hact.trans heq)
            by_cases hin : id ∈ ids
            · have := hon st1.missing row hrow (hid ▸ hin)
              rw [hid] at this
              have := missing_get st1 id this
              rw [hv] at this; cases this
            · -- not one of the queried ids: it has no entry, so no value
              have : st1.get id = none := get_of_not_has st1 id (fun hh => hin (hhas id hh))
              rw [hv] at this; cases this
          rw [ex, hnone]
          split <;> exact hv
      · simp only [Except.ok.injEq, Prod.mk.injEq] at hs
        obtain ⟨_, rfl⟩ := hs
        exact hv
  · simp only [Except.ok.injEq, Prod.mk.injEq] at h
    obtain ⟨_, rfl⟩ := h
    exact hv

theorem C16_lsf_failing_query (ids : List Str) (p : Proc) (hq : p.rc ≠ 0) :
    ∃ c, lsfCheck ids p = .ok (c, Status.init ids) ∧ c ≠ .OK := by
  have h1 : (p.rc == 0) = false := by simpa using hq
  simp only [lsfCheck, h1, Bool.false_eq_true, ↓reduceIte]
  split
  · exact ⟨_, rfl, by decide⟩
  · exact ⟨_, rfl, by decide⟩

/-- the exit-code table of the Slurm commands -/
theorem C16_rc_table : rcCode 0 = .OK ∧ rcCode 1 = .NOJOBS ∧ rcCode 127 = .ERROR ∧
    ∀ n, 2 ≤ n → rcCode n = .ERROR := by
  refine ⟨by decide, by decide, by decide, ?_⟩
  intro n hn
  unfold rcCode
  have h1 : (n == 0) = false := by simp; omega
  have h2 : (n == 1) = false := by simp; omega
  simp [h1, h2]

/-! ### `cancel_jobs` always yields a record (C07, adapter side) -/
theorem C16_cancel_total (ids : List Str) (rc : Nat) :
    (ids = [] → cancelJobs ids rc = (.OK, 0)) ∧
    (ids ≠ [] → cancelJobs ids rc = (if rc = 0 then (.OK, rc) else (.ERROR, rc))) := by
  constructor
  · intro h; simp [cancelJobs, h]
  · intro h
    have : ids.isEmpty = false := by simpa using h
    simp only [cancelJobs, this, Bool.false_eq_true, ↓reduceIte]
    by_cases h0 : rc = 0 <;> simp [h0]

/-! ### non-vacuity: a concrete squeue answer with a prefix-related id, an
array row, a blank line and a repeated row -/
def demoOut : Str :=
  "             JOBID     NAME     USER ST\n               123     name     user  R\n              1234     name     user CD\n             123_4     name     user  F\n\n               123     name     user CG\n".toList

example : (match slurmCheck ["123".toList, "12".toList] ⟨0, demoOut⟩ (acctReply ["123".toList, "12".toList] ⟨1, []⟩) with
    | .ok r => r == (.OK, [("123".toList, some .FINISHING), ("12".toList, none)])
    | .error _ => false) = true := by decide +kernel

/-- the scripted accounting command the correspondence runs both sides against keeps the
`--jobs=` contract, so `C16_squeue_answer_kept` applies to every correspondence case -/
theorem C16_accounting_contract (ids : List Str) (full : Proc) : Honest ids (acctReply ids full) :=
  acctReply_honest ids full

/-- non-vacuity: `squeue` lists job 123 as running, does not list job 12; the accounting
record holds a stale COMPLETED row for 123 and a FAILED row for 12: 123 stays RUNNING
(the stale row is not even returned, it was not asked about), 12 is read from `sacct` -/
def demoAcct : Str :=
  "JobID           JobName      State ExitCode \n------------ ---------- ---------- -------- \n123                name  COMPLETED      0:0 \n12                 name     FAILED      1:0 \n12.batch          batch     FAILED      1:0 ".toList

def demoQueue : Str :=
  "             JOBID     NAME     USER ST\n               123     name     user  R\n".toList

example : (match slurmCheck ["123".toList, "12".toList] ⟨0, demoQueue⟩
      (acctReply ["123".toList, "12".toList] ⟨0, demoAcct⟩) with
    | .ok r => r == (.OK, [("123".toList, some .RUNNING), ("12".toList, some .FAILED)])
    | .error _ => false) = true := by decide +kernel

example : ((acctReply ["123".toList, "12".toList] ⟨0, demoAcct⟩ ["12".toList]).out ==
    "JobID           JobName      State ExitCode \n------------ ---------- ---------- -------- \n12                 name     FAILED      1:0 \n12.batch          batch     FAILED      1:0 ".toList) = true := by
  decide +kernel

end MaestroVerif.C16
