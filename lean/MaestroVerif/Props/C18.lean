import MaestroVerif.Model.Expand

/-!
# C18 — The study handed from `maestro run` to the conductor is the same study

What Lean can carry here is small and is said so (DESIGN.md §6 C18): `dill` /
`yaml` fidelity is a library and runtime property.  The model treats store/load
as the identity, so the theorems only say that the staged graph is a function of
the abstract content of the study.  The deciding evidence is the differential
run through the real hand-off path (`harness/props/c18.py`, level `other`).
-/
namespace MaestroVerif.C18
open MaestroVerif.Expand

/-- equal content ⇒ identical staged graphs (staging reads nothing but the
specification content: names, texts, parameter table, configuration) -/
theorem C18_stage_depends_on_content (s₁ s₂ : Spec) (ord : List Subst.Str → List Subst.Str)
    (h : s₁ = s₂) : stage s₁ ord = stage s₂ ord := by rw [h]

/-- the restart limit handed to an instance is the configured one iff the step
has a restart command (the limits are part of "identical … limits") -/
theorem C18_limits (spec : Spec) (st : Step) :
    (if st.restart.isEmpty then 0 else spec.rlimit) = (if st.restart = [] then 0 else spec.rlimit) := by
  cases st.restart <;> simp

end MaestroVerif.C18
