import MaestroVerif.Lemmas.ConductorLemmas
import MaestroVerif.Model.Expand

/-!
# C18 — The study handed from `maestro run` to the conductor is the same study

What Lean can carry here is small and is said so (DESIGN.md §6 C18): `dill` /
`yaml` fidelity is a library and runtime property.  The model treats store/load
as the identity, so the theorems only say that the staged graph is a function of
the abstract content of the study.  The deciding evidence is the differential
run through the real hand-off path (`harness/props/c18.py`, level `other`).
-/
namespace MaestroVerif.C18
open MaestroVerif.Expand

/-- equal content ⇒ identical staged graphs (staging reads nothing but the
specification content: names, texts, parameter table, configuration) -/
theorem C18_stage_depends_on_content (s₁ s₂ : Spec) (ord : List Subst.Str → List Subst.Str)
    (h : s₁ = s₂) : stage s₁ ord = stage s₂ ord := by rw [h]

/-- the restart limit handed to an instance is the configured one iff the step
has a restart command (the limits are part of "identical … limits") -/
theorem C18_limits (spec : Spec) (st : Step) :
    (if st.restart.isEmpty then 0 else spec.rlimit) = (if st.restart = [] then 0 else spec.rlimit) := by
  cases st.restart <;> simp

/-- **the snapshot and the status table are rewritten after every poll, from the state that poll
left** (`Model/Conductor.lean`): whenever `execute_ready_steps` returns, the loop pickles the graph
and writes `status.csv`, in that order, before it sleeps or returns - so what a later conductor or
`maestro status` reads is the live state -/
theorem C18_snapshot_after_every_poll (cfg : Exec.Cfg) (s : Conductor.CS) (it : Conductor.Iter)
    (v : Gen.StudyStatus) (h : (Conductor.iter cfg s it).2 = .status v) :
    (Conductor.iter cfg s it).1.saved = some (Conductor.iter cfg s it).1.g ∧
    ∃ pre, (Conductor.iter cfg s it).1.trace = s.trace ++ pre ++ [.poll, .pickle, .writeStatus] ++
      (if v == .RUNNING then [.sleep] else []) :=
  Conductor.snapshot_after_every_poll cfg s it v h

end MaestroVerif.C18
