import MaestroVerif.Lemmas.LauncherLemmas
import MaestroVerif.Lemmas.LauncherHeaders

/-!
# C15 — Batch scripts request exactly the declared resources and launcher

`Model/Launcher.lean` models script generation of the Slurm, LSF, Flux and
local adapters over Python's dynamically typed resource values (`Val`), with
every Python exception an `Except` error.  The full statement ("script
generation never fails for a resource specification the validator accepted",
for every back-end and token form) is false of the code: the proved
counterexamples at the end are the known findings; the general theorems carry
the hypotheses that exclude them (Slurm/Flux launchers, which are total; LSF is
covered by the launcher-loop theorems, which hold for every adapter).
-/
namespace MaestroVerif.C15
open MaestroVerif.Launcher MaestroVerif.Subst

/-! ## scheduled or local -/

/-- **A step is to be scheduled iff it declares nodes or procs** (whenever
generation succeeds). -/
theorem C15_local_iff (cx : Ctx) (run : Dict) (s : Bool) (c r : Str)
    (h : schedulerCommand cx run = .ok (s, c, r)) : s = declares run := by
  unfold schedulerCommand at h
  by_cases hd : declares run = true
  · simp only [hd, ↓reduceIte] at h
    split at h
    · exact absurd h (by simp)
    · split at h
      · split at h
        · exact absurd h (by simp)
        · simp only [Except.ok.injEq, Prod.mk.injEq] at h; rw [← h.1, hd]
      · simp only [Except.ok.injEq, Prod.mk.injEq] at h; rw [← h.1, hd]
  · simp only [hd] at h
    simp only [Bool.false_eq_true, ↓reduceIte, Except.ok.injEq, Prod.mk.injEq] at h
    rw [← h.1]; simpa using hd

/-- **A step declaring neither keeps its commands as they are**: no launcher
substitution, nothing can fail. -/
theorem C15_local_untouched (cx : Ctx) (run : Dict) (h : declares run = false) :
    schedulerCommand cx run = .ok (false, (run.getN "cmd").pyStr,
      if (run.getN "restart").truthy then (run.getN "restart").pyStr else []) := by
  unfold schedulerCommand
  simp [h]

/-- **… and its script is the shell line, a blank line and the command** (Slurm
and LSF; the local adapter writes this for every step; Flux prepends its
informational `#INFO` comment lines to the main script). -/
theorem C15_local_script (cx : Ctx) (name desc : Str) (run : Dict)
    (ha : cx.adapter = .slurm ∨ cx.adapter = .lsf ∨ cx.adapter = .localA)
    (h : declares run = false ∨ cx.adapter = .localA) :
    script cx name desc run = .ok (mkScript false (shebang cx) (shebang cx) (run.getN "cmd").pyStr
      (if (run.getN "restart").truthy then (run.getN "restart").pyStr else [])) := by
  unfold script
  rcases ha with ha | ha | ha
  · rcases h with h | h
    · simp [ha, C15_local_untouched cx run h]
    · rw [ha] at h; exact absurd h (by decide)
  · rcases h with h | h
    · simp [ha, C15_local_untouched cx run h]
    · rw [ha] at h; exact absurd h (by decide)
  · simp [ha]

/-! ## the launcher -/

/-- **Bare `$(LAUNCHER)`**: a command without bracketed tokens has every
occurrence of the bare token replaced by the launcher built from the step's own
totals, and nothing else changes (`replaceAll`, whose behaviour is C09's). -/
theorem C15_launcher_bare (cx : Ctx) (cmd : Str) (run : Dict)
    (hno : findAllocs (cmd.length + 1) cmd = []) :
    substituteParallel cx cmd run =
      match parallel cx (run.getN "procs") (run.getN "nodes") ((run.remove "nodes").remove "procs") with
      | .error e => .error e
      | .ok pcmd => .ok (replaceAll cmd launcherVar pcmd) := by
  unfold substituteParallel
  simp only [hno, List.isEmpty_nil, ↓reduceIte]
  cases parallel cx (run.getN "procs") (run.getN "nodes") ((run.remove "nodes").remove "procs") with
  | error e => rfl
  | ok pcmd =>
    by_cases ho : occurs launcherVar cmd = true
    · simp [ho]
    · have : occurs launcherVar cmd = false := by simpa using ho
      simp [this, replaceAll_no_occurrence cmd launcherVar pcmd this]

/-- the Slurm launcher carries exactly the requested counts -/
theorem C15_slurm_launcher_text (p n : Nat) (hp : p ≠ 0) (hn : n ≠ 0) (addl : Dict)
    (hc : (addl.getN "cores per task").truthy = false) :
    slurmParallel (.int p) (.int n) addl =
      "srun -n ".toList ++ natStr p ++ " -N ".toList ++ natStr n := by
  have h1 : (Val.int (p : Int)).truthy = true := by simp [Val.truthy]; omega
  have h2 : (Val.int (n : Int)).truthy = true := by simp [Val.truthy]; omega
  have h3 : ¬ ((p : Int) < 0) := by omega
  have h4 : ¬ ((n : Int) < 0) := by omega
  unfold slurmParallel
  simp only [h1, h2, hc, Bool.false_eq_true, ↓reduceIte]
  simp [joinSp, joinWith, Val.pyStr, h3, h4]

/-- a nodes-only step asks Slurm for nodes only (no empty `-n`) -/
theorem C15_slurm_launcher_nodes_only (n : Nat) (hn : n ≠ 0) (addl : Dict)
    (hc : (addl.getN "cores per task").truthy = false) :
    slurmParallel (.str []) (.int n) addl = "srun -N ".toList ++ natStr n := by
  have h1 : (Val.str []).truthy = false := rfl
  have h2 : (Val.int (n : Int)).truthy = true := by simp [Val.truthy]; omega
  have h4 : ¬ ((n : Int) < 0) := by omega
  unfold slurmParallel
  simp only [h1, h2, hc, Bool.false_eq_true, ↓reduceIte]
  simp [joinSp, joinWith, Val.pyStr, h4]

/-- **Bracketed tokens, every adapter**: when substitution succeeds, the result is
the command with each token text replaced, in order, by the launcher built from
that token's own counts; every token stayed within the step's declared totals
and so did their sums.  Hence **an allocation exceeding the step's totals is
rejected** (the substitution cannot succeed). -/
theorem C15_overallocation_rejected (cx : Ctx) (cmd : Str) (run : Dict) (out : Str)
    (hne : findAllocs (cmd.length + 1) cmd ≠ [])
    (h : substituteParallel cx cmd run = .ok out) :
    ∃ maxN maxP, maxOf (run.getN "nodes") = .ok maxN ∧ maxOf (run.getN "procs") = .ok maxP ∧
      out = applyTokens cx ((run.remove "nodes").remove "procs") cmd (findAllocs (cmd.length + 1) cmd) ∧
      (∀ a ∈ findAllocs (cmd.length + 1) cmd, ∃ n p, tokenCounts a = .ok (n, p) ∧
        (∀ v, n = some v → (run.getN "nodes").truthy = true → v ≤ maxN) ∧
        (∀ v, p = some v → (run.getN "procs").truthy = true → v ≤ maxP)) ∧
      ((run.getN "procs").truthy = true → ((findAllocs (cmd.length + 1) cmd).map procAsk).sum ≤ maxP) ∧
      ((run.getN "nodes").truthy = true → ((findAllocs (cmd.length + 1) cmd).map nodeAsk).sum ≤ maxN) := by
  unfold substituteParallel at h
  have hne' : (findAllocs (cmd.length + 1) cmd).isEmpty = false := by
    cases hf : findAllocs (cmd.length + 1) cmd with
    | nil => exact absurd hf hne
    | cons a as => rfl
  simp only [hne', Bool.false_eq_true, ↓reduceIte] at h
  cases hn : maxOf (run.getN "nodes") with
  | error e => simp [hn] at h
  | ok maxN =>
    cases hp : maxOf (run.getN "procs") with
    | error e => simp [hn, hp] at h
    | ok maxP =>
      simp only [hn, hp] at h
      cases hf : substFold cx (run.getN "nodes") (run.getN "procs") maxN maxP
          ((run.remove "nodes").remove "procs") { cmd := cmd, totalNodes := 0, totalProcs := 0 }
          (findAllocs (cmd.length + 1) cmd) with
      | error e => simp [hf] at h
      | ok acc =>
        simp only [hf] at h
        obtain ⟨i1, i2, i3, i4⟩ := substFold_ok _ _ _ hf
        simp only [Int.zero_add] at i2 i3
        by_cases c1 : ((run.getN "procs").truthy && decide (acc.totalProcs > maxP)) = true
        · simp [c1] at h
        · by_cases c2 : ((run.getN "nodes").truthy && decide (acc.totalNodes > maxN)) = true
          · simp [c1, c2] at h
          · simp only [c1, c2, Bool.false_eq_true, ↓reduceIte, Except.ok.injEq] at h
            refine ⟨maxN, maxP, rfl, rfl, ?_, ?_, ?_, ?_⟩
            · rw [← h, i1]
            · intro a ha
              obtain ⟨n, p, hc, hon, hop⟩ := i4 a ha
              refine ⟨n, p, hc, ?_, ?_⟩
              · intro v hv ht
                subst hv
                simp only [overOne, ht, Bool.true_and, decide_eq_false_iff_not] at hon
                omega
              · intro v hv ht
                subst hv
                simp only [overOne, ht, Bool.true_and, decide_eq_false_iff_not] at hop
                omega
            · intro ht
              simp only [ht, Bool.true_and, decide_eq_true_eq] at c1
              rw [← i3]; omega
            · intro ht
              simp only [ht, Bool.true_and, decide_eq_true_eq] at c2
              rw [← i2]; omega

/-- the counts a token of the documented forms asks for -/
theorem C15_token_forms :
    tokenCounts "1n, 36p".toList = .ok (some 1, some 36) ∧
    tokenCounts "36p, 1n".toList = .ok (some 1, some 36) ∧
    tokenCounts "4p".toList = .ok (none, some 4) ∧
    tokenCounts "2,  8".toList = .ok (some 2, some 8) := by
  refine ⟨?_, ?_, ?_, ?_⟩ <;> decide +kernel

/-- two tokens on one line are two matches (the scan stops at the first `]`) -/
theorem C15_two_tokens_one_line :
    findAllocs 64 "$(LAUNCHER)[1p] a; $(LAUNCHER)[2n, 2p] b".toList = ["1p".toList, "2n, 2p".toList] := by
  decide +kernel


/-! ## the Slurm header -/

/-- **what a header line is generated from**: the step's value when the step
declares one (a truthy value), else the batch block's -/
def requested (batch run : Dict) (k : String) : Option Val :=
  match run.get? k with
  | some v => if v.truthy then some v else batch.get? k
  | none => batch.get? k

/-- the line(s) for one resource: present iff the resource is requested -/
def lineIf (v : Option Val) (f : Val → Str) : List Str :=
  match v with
  | some x => if x.truthy then [f x] else []
  | none => []

theorem slurm_resource (cx : Ctx) (name desc : Str) (run : Dict) (hn : (run.map (·.1)).Nodup)
    (k : String) (h1 : k.toList ≠ "job-name".toList) (h2 : k.toList ≠ "comment".toList) :
    (slurmResources cx name desc run).get? k = requested cx.batch run k := by
  unfold slurmResources Dict.get? requested
  rw [look_set_ne _ _ _ _ h2, look_set_ne _ _ _ _ h1, look_update_truthy _ _ hn]
  rfl

theorem slurm_jobname (cx : Ctx) (name desc : Str) (run : Dict) :
    (slurmResources cx name desc run).get? "job-name" = some (.str (replaceChar name ' ' '_')) := by
  unfold slurmResources Dict.get?
  rw [look_set_ne _ _ _ _ (by decide), look_set_self]

theorem slurm_comment (cx : Ctx) (name desc : Str) (run : Dict) :
    (slurmResources cx name desc run).get? "comment" = some (.str (replaceChar desc '\n' ' ')) := by
  unfold slurmResources Dict.get?
  rw [look_set_self]

theorem keyLines_eq (res : Dict) (keys : List (String × (Val → Str))) :
    (keys.filterMap fun kf => optLine kf.2 (res.get? kf.1)) =
      (keys.map fun kf => lineIf (res.get? kf.1) kf.2).flatten := by
  induction keys with
  | nil => rfl
  | cons kf rest ih =>
    simp only [List.filterMap_cons, List.map_cons, List.flatten_cons, ← ih]
    cases h : res.get? kf.1 with
    | none => simp [lineIf, optLine]
    | some v => by_cases ht : v.truthy <;> simp [lineIf, optLine, ht]

/-- **The Slurm header requests exactly the declared resources**: when header
generation succeeds the header is the shell line followed by exactly one
directive for each requested resource — the step's value where the step
declares one, else the batch block's — in this order, and nothing else.  The
task count is requested when the batch block gives one or no node count is
requested. -/
theorem C15_slurm_header_exact (cx : Ctx) (name desc : Str) (run : Dict) (ls : List Str)
    (hn : (run.map (·.1)).Nodup) (h : slurmHeaderLines cx name desc run = .ok ls) :
    let req := requested cx.batch run
    ls = [shebang cx]
      ++ lineIf (req "nodes") (hline "#SBATCH --nodes=")
      ++ lineIf (req "queue") (hline "#SBATCH --partition=")
      ++ lineIf (req "bank") (hline "#SBATCH --account=")
      ++ lineIf (req "walltime") (hline "#SBATCH --time=")
      ++ lineIf (some (.str (replaceChar name ' ' '_'))) (fun v =>
          hline "#SBATCH --job-name=\"" v "\"" ++ ['\n'] ++ hline "#SBATCH --output=\"" v ".out\"" ++ ['\n'] ++
          hline "#SBATCH --error=\"" v ".err\"")
      ++ lineIf (some (.str (replaceChar desc '\n' ' '))) (fun v => hline "#SBATCH --comment \"" v "\"")
      ++ lineIf (req "reservation") (fun v => hline "#SBATCH --reservation=\"" v "\"")
      ++ lineIf (req "gpus") (hline "#SBATCH --gres=gpu:")
      ++ (if (cx.batch.get? "procs").isSome || !((req "nodes").getD .none).truthy
          then [hline "#SBATCH --ntasks=" ((req "procs").getD .none)] else [])
      ++ (if ((req "exclusive").getD (.bool false)).truthy then ["#SBATCH --exclusive".toList] else [])
      ++ lineIf (req "qos") (hline "#SBATCH --qos=") := by
  intro req
  have R : ∀ k : String, k.toList ≠ "job-name".toList → k.toList ≠ "comment".toList →
      (slurmResources cx name desc run).get? k = req k := fun k h1 h2 => slurm_resource cx name desc run hn k h1 h2
  have rN := R "nodes" (by decide) (by decide)
  have rP := R "procs" (by decide) (by decide)
  have rE := R "exclusive" (by decide) (by decide)
  have rQ := R "qos" (by decide) (by decide)
  unfold slurmHeaderLines at h
  simp only [Dict.getN, getD, rN, rP, rE, rQ] at h
  split at h
  · simp at h
  · split at h
    · simp at h
    · rename_i nt hnt
      simp only [Except.ok.injEq] at h
      rw [← h]
      have hkl : slurmKeyLines (slurmResources cx name desc run) =
          lineIf (req "nodes") (hline "#SBATCH --nodes=")
          ++ lineIf (req "queue") (hline "#SBATCH --partition=")
          ++ lineIf (req "bank") (hline "#SBATCH --account=")
          ++ lineIf (req "walltime") (hline "#SBATCH --time=")
          ++ lineIf (some (.str (replaceChar name ' ' '_'))) (fun v =>
              hline "#SBATCH --job-name=\"" v "\"" ++ ['\n'] ++ hline "#SBATCH --output=\"" v ".out\"" ++ ['\n'] ++
              hline "#SBATCH --error=\"" v ".err\"")
          ++ lineIf (some (.str (replaceChar desc '\n' ' '))) (fun v => hline "#SBATCH --comment \"" v "\"")
          ++ lineIf (req "reservation") (fun v => hline "#SBATCH --reservation=\"" v "\"")
          ++ lineIf (req "gpus") (hline "#SBATCH --gres=gpu:") := by
        unfold slurmKeyLines
        rw [keyLines_eq]
        simp only [slurmKeys, List.map_cons, List.map_nil, List.flatten_cons, List.flatten_nil,
          List.append_nil, List.append_assoc]
        rw [rN, R "queue" (by decide) (by decide), R "bank" (by decide) (by decide),
          R "walltime" (by decide) (by decide), slurm_jobname, slurm_comment,
          R "reservation" (by decide) (by decide), R "gpus" (by decide) (by decide)]
      rw [hkl]
      have hnt' : nt = (if (cx.batch.get? "procs").isSome || !((req "nodes").getD .none).truthy
          then [hline "#SBATCH --ntasks=" ((req "procs").getD .none)] else []) := by
        split at hnt
        · rename_i hc
          simp only [hc, ↓reduceIte]
          cases hp : req "procs" with
          | none => simp [hp] at hnt
          | some v => simp only [hp, Except.ok.injEq] at hnt; simp [← hnt]
        · rename_i hc
          simp only [Except.ok.injEq] at hnt
          simp [hc, ← hnt]
      rw [hnt']
      have hq : (if ((req "qos").getD .none).truthy = true then [hline "#SBATCH --qos=" ((req "qos").getD .none)] else []) =
          lineIf (req "qos") (hline "#SBATCH --qos=") := by
        cases hqq : req "qos" with
        | none => simp [lineIf, Val.truthy]
        | some v => by_cases ht : v.truthy <;> simp [lineIf, ht]
      rw [hq]
      simp only [shebang, List.append_assoc, List.cons_append, List.nil_append]

/-- **Slurm header generation never fails for a step that declares nodes or
procs**, whatever else the resource dictionary and the batch block hold. -/
theorem C15_slurm_header_never_fails (cx : Ctx) (name desc : Str) (run : Dict)
    (hn : (run.map (·.1)).Nodup) (hd : declares run = true) :
    ∃ ls, slurmHeaderLines cx name desc run = .ok ls := by
  have R : ∀ k : String, k.toList ≠ "job-name".toList → k.toList ≠ "comment".toList →
      (slurmResources cx name desc run).get? k = requested cx.batch run k :=
    fun k h1 h2 => slurm_resource cx name desc run hn k h1 h2
  have rN := R "nodes" (by decide) (by decide)
  have rP := R "procs" (by decide) (by decide)
  -- a declared total is what the header sees
  have key : ∀ k : String, (getD run k (.int 0)).truthy = true →
      ∃ v, requested cx.batch run k = some v ∧ v.truthy = true := by
    intro k hk
    unfold getD at hk
    unfold requested
    cases hr : run.get? k with
    | none => simp [hr, Val.truthy] at hk
    | some v =>
      simp only [hr, Option.getD_some] at hk
      exact ⟨v, by simp [hk], hk⟩
  unfold slurmHeaderLines
  simp only [Dict.getN, getD, rN, rP]
  unfold declares at hd
  simp only [Bool.or_eq_true] at hd
  rcases hd with hd | hd
  · obtain ⟨v, hv, ht⟩ := key "nodes" hd
    simp only [hv, Option.getD_some, ht, Bool.not_true, Bool.and_false, Bool.false_eq_true, ↓reduceIte,
      Bool.or_false]
    by_cases hb : (cx.batch.get? "procs").isSome = true
    · have : ∃ w, requested cx.batch run "procs" = some w := by
        unfold requested
        obtain ⟨w, hw⟩ := Option.isSome_iff_exists.mp hb
        cases hr : run.get? "procs" with
        | none => exact ⟨w, by simp [hw]⟩
        | some u => by_cases hu : u.truthy <;> simp [hu, hw]
      obtain ⟨w, hw⟩ := this
      simp [hb, hw]
    · simp [hb]
  · obtain ⟨v, hv, ht⟩ := key "procs" hd
    simp only [hv, Option.getD_some, ht, Bool.not_true, Bool.false_and, Bool.false_eq_true, ↓reduceIte]
    split
    · rename_i e he
      split at he <;> simp at he
    · exact ⟨_, rfl⟩


/-! ## the LSF and Flux headers -/

/-- **The LSF header, line by line** (see `Lemmas/LauncherHeaders.lean`): which
value each directive carries — the step's when the step declares one, else the
batch block's — and that nothing else is in the header.  The `-nnodes` value is
the step's `nodes` *entry* whenever there is one: an undeclared (empty) entry
overrides the batch block's, the known finding `C15-lsf-header-empty`. -/
theorem C15_lsf_header_exact (cx : Ctx) (name : Str) (run : Dict) (ls : List Str)
    (hn : (run.map (·.1)).Nodup)
    (h1 : run.get? "job-name" = none) (h2 : run.get? "output" = none) (h3 : run.get? "error" = none)
    (h : lsfHeaderLines cx name run = .ok ls) :
    ∃ wt, lsfWalltime (run.getN "walltime").pyStr = .ok wt ∧
      ls = [shebang cx, hline "#BSUB -nnodes " (lsfNodes cx run)]
        ++ lineOf (lsfRequested cx run "queue") "#BSUB -q "
        ++ lineOf (lsfRequested cx run "bank") "#BSUB -G "
        ++ [hline "#BSUB -W " (.str wt), hline "#BSUB -J " (.str (replaceChar name ' ' '_')),
            hline "#BSUB -o " (.str (replaceChar name ' ' '_' ++ ".%J.out".toList))]
        ++ lineOf (lsfRequested cx run "reservation") "#BSUB -U "
        ++ [hline "#BSUB -e " (.str (replaceChar name ' ' '_' ++ ".%J.err".toList))] :=
  lsf_header_exact cx name run ls hn h1 h2 h3 h

/-- LSF wants `HH:MM`: seconds are rounded up into the minutes, minutes carry
into the hours -/
theorem C15_lsf_walltime_examples :
    lsfWalltime "00:10:30".toList = .ok "00:11".toList ∧
    lsfWalltime "01:59:01".toList = .ok "02:00".toList ∧
    lsfWalltime "12:00".toList = .ok "12:00".toList ∧
    lsfWalltime "30".toList = .ok "30".toList := by decide +kernel

/-- **The Flux header, line by line** (informational comments only). -/
theorem C15_flux_header_exact (cx : Ctx) (run : Dict) (ls : List Str) (h : fluxHeaderLines cx run = .ok ls)
    (hb1 : cx.batch.get? "walltime" = none) (hb2 : cx.batch.get? "flux_version" = none) :
    ∃ wt, fluxWalltime (run.getN "walltime") = .ok wt ∧
      ls = [shebang cx]
        ++ lineOf (if (run.getN "nodes").truthy then some (run.getN "nodes") else cx.batch.get? "nodes")
            "#INFO (nodes) "
        ++ [hline "#INFO (walltime) " (.str wt)]
        ++ lineOf (cx.batch.get? "version") "#INFO (flux adapter version) "
        ++ [hline "#INFO (flux version) " (.str cx.fluxVer)]
        ++ lineOf (cx.batch.get? "flux_uri") "#INFO (flux_uri) " :=
  flux_header_exact cx run ls h hb1 hb2

/-! ## rejection is clean on Slurm and Flux -/

/-- **Only `ValueError` can come out of launcher substitution** on the adapters
whose launcher generation is total (Slurm, Flux): malformed tokens, counts that
are not numbers and over-allocation are all diagnosed rejections — never a
`TypeError`, whatever the types of the resource values. -/
theorem C15_rejects_cleanly (cx : Ctx) (hc : cx.adapter = .slurm ∨ cx.adapter = .flux)
    (run : Dict) (e : PErr) (h : schedulerCommand cx run = .error e) : e = .valueError :=
  schedulerCommand_err (by rcases hc with h | h <;> simp [totalLauncher, h]) h

/-- **… and without bracketed tokens nothing is rejected at all.** -/
theorem C15_no_tokens_never_fails (cx : Ctx) (hc : cx.adapter = .slurm ∨ cx.adapter = .flux)
    (cmd : Str) (run : Dict) (hno : findAllocs (cmd.length + 1) cmd = []) :
    ∃ out, substituteParallel cx cmd run = .ok out := by
  rw [C15_launcher_bare cx cmd run hno]
  obtain ⟨s, hs⟩ := parallel_total (cx := cx) (by rcases hc with h | h <;> simp [totalLauncher, h])
    (run.getN "procs") (run.getN "nodes") ((run.remove "nodes").remove "procs")
  exact ⟨_, by rw [hs]⟩


/-- **Slurm script generation fails only by a diagnosed rejection** (`ValueError`
for a malformed or over-allocating launcher token): whatever resource
dictionary and batch block, there is no `TypeError`, `KeyError` or
`RuntimeError`. -/
theorem C15_slurm_script_rejects_cleanly (cx : Ctx) (ha : cx.adapter = .slurm) (name desc : Str)
    (run : Dict) (hn : (run.map (·.1)).Nodup) (e : PErr)
    (h : script cx name desc run = .error e) : e = .valueError := by
  unfold script at h
  simp only [ha] at h
  cases hs : schedulerCommand cx run with
  | error e' =>
    simp only [hs, Except.error.injEq] at h
    rw [← h]; exact C15_rejects_cleanly cx (Or.inl ha) run e' hs
  | ok scr =>
    obtain ⟨s, c, r⟩ := scr
    simp only [hs] at h
    have hsd := C15_local_iff cx run s c r hs
    cases s with
    | false => simp at h
    | true =>
      obtain ⟨ls, hls⟩ := C15_slurm_header_never_fails cx name desc run hn hsd.symm
      simp [slurmHeader, hls, Except.map] at h

/-- **… and a Slurm step without bracketed launcher tokens always gets its
script.** -/
theorem C15_slurm_never_fails (cx : Ctx) (ha : cx.adapter = .slurm) (name desc : Str)
    (run : Dict) (hn : (run.map (·.1)).Nodup)
    (h1 : findAllocs ((run.getN "cmd").pyStr.length + 1) (run.getN "cmd").pyStr = [])
    (h2 : findAllocs ((run.getN "restart").pyStr.length + 1) (run.getN "restart").pyStr = []) :
    ∃ sc, script cx name desc run = .ok sc := by
  cases hsc : script cx name desc run with
  | ok sc => exact ⟨sc, rfl⟩
  | error e =>
    exfalso
    unfold script at hsc
    simp only [ha] at hsc
    have hcmd : ∃ scr, schedulerCommand cx run = .ok scr := by
      unfold schedulerCommand
      simp only
      obtain ⟨o1, ho1⟩ := C15_no_tokens_never_fails cx (Or.inl ha) _ run h1
      obtain ⟨o2, ho2⟩ := C15_no_tokens_never_fails cx (Or.inl ha) _ run h2
      split
      · simp only [ho1]
        split
        · simp only [ho2]; exact ⟨_, rfl⟩
        · exact ⟨_, rfl⟩
      · exact ⟨_, rfl⟩
    obtain ⟨⟨s, c, r⟩, hs⟩ := hcmd
    simp only [hs] at hsc
    have hsd := C15_local_iff cx run s c r hs
    cases s with
    | false => simp at hsc
    | true =>
      obtain ⟨ls, hls⟩ := C15_slurm_header_never_fails cx name desc run hn hsd.symm
      simp [slurmHeader, hls, Except.map] at hsc

/-! ## proved counterexamples of the unrestricted statement (known findings) -/

/-- the documented nodes-only token `[2n]` is rejected (every adapter) -/
theorem C15_counterexample_nodes_only : parseAlloc "2n".toList = .error .valueError := by decide +kernel

/-- LSF: a step that declares only procs (or only nodes) cannot get a launcher -/
theorem C15_counterexample_lsf_needs_both :
    lsfParallel (.int 4) (.str []) [] = .error .valueError ∧
    lsfParallel (.str []) (.int 2) [] = .error .valueError := by decide +kernel

/-- LSF: the tasks-only token `[1p]` (node count `None`) is a `TypeError` -/
theorem C15_counterexample_lsf_p_token : lsfParallel (.str "1".toList) .none [] = .error .typeError := by
  decide +kernel

/-- Flux: a nodes-only step's launcher has an empty task count -/
theorem C15_counterexample_flux_empty_n :
    fluxParallel [("nodes".toList, .str "1".toList)] (.str []) (.int 2) [] [] = "flux run -n  -N 2".toList := by
  decide +kernel

def lsfDemo : Ctx :=
  { adapter := .lsf, batch := [("nodes".toList, Val.str "1".toList)], shell := bash, fluxArgs := [], fluxVer := [] }

/-- LSF: an undeclared walltime is emitted as an empty `#BSUB -W ` directive -/
theorem C15_counterexample_lsf_empty_walltime :
    (lsfHeaderLines lsfDemo "s".toList
      [("nodes".toList, .int 1), ("procs".toList, .int 1), ("walltime".toList, .str [])]).map
      (fun ls => ls.contains "#BSUB -W ".toList) = .ok true := by decide +kernel

/-! ## non-vacuity: a complete Slurm script -/
example :
    (mkCtx .slurm [("host".toList, .str "h".toList), ("bank".toList, .str "b".toList),
        ("queue".toList, .str "q".toList)] [] .none []).bind (fun cx =>
      script cx "run sim".toList "d".toList
        [("cmd".toList, .str "$(LAUNCHER)[1n, 2p] a; $(LAUNCHER) b".toList), ("restart".toList, .str []),
         ("nodes".toList, .int 2), ("procs".toList, .str "4".toList), ("walltime".toList, .str "00:10:00".toList)]) =
    .ok { scheduled := true,
          main := ("#!/bin/bash\n#SBATCH --nodes=2\n#SBATCH --partition=q\n#SBATCH --account=b\n" ++
            "#SBATCH --time=00:10:00\n#SBATCH --job-name=\"run_sim\"\n#SBATCH --output=\"run_sim.out\"\n" ++
            "#SBATCH --error=\"run_sim.err\"\n#SBATCH --comment \"d\"\n\nsrun -n 2 -N 1 a; $(LAUNCHER) b\n").toList,
          restart := none } := by decide +kernel

/-! ## Flux: never fails for understood walltimes -/

/-- the walltime spellings the Flux adapter understands: absent is not one of them (the step
dictionary always carries the key), an integer number of minutes, a string of digits, `"inf"` or
the empty string (no limit), or colon-separated integers -/
def FluxWalltimeOk (v : Val) : Prop := ∃ wt, fluxWalltime v = .ok wt

/-- **Flux script generation never fails for a step without bracketed launcher tokens whose
walltime is one of the understood spellings**: the launcher is total, the header fails only through
the walltime conversion -/
theorem C15_flux_never_fails (cx : Ctx) (ha : cx.adapter = .flux) (name desc : Str) (run : Dict)
    (hw : FluxWalltimeOk (run.getN "walltime"))
    (h1 : findAllocs ((run.getN "cmd").pyStr.length + 1) (run.getN "cmd").pyStr = [])
    (h2 : findAllocs ((run.getN "restart").pyStr.length + 1) (run.getN "restart").pyStr = []) :
    ∃ sc, script cx name desc run = .ok sc := by
  obtain ⟨wt, hwt⟩ := hw
  cases hsc : script cx name desc run with
  | ok sc => exact ⟨sc, rfl⟩
  | error e =>
    exfalso
    unfold script at hsc
    simp only [ha] at hsc
    have hcmd : ∃ scr, schedulerCommand cx run = .ok scr := by
      unfold schedulerCommand
      simp only
      obtain ⟨o1, ho1⟩ := C15_no_tokens_never_fails cx (Or.inr ha) _ run h1
      obtain ⟨o2, ho2⟩ := C15_no_tokens_never_fails cx (Or.inr ha) _ run h2
      split
      · simp only [ho1]
        split
        · simp only [ho2]; exact ⟨_, rfl⟩
        · exact ⟨_, rfl⟩
      · exact ⟨_, rfl⟩
    obtain ⟨⟨s, c, r⟩, hs⟩ := hcmd
    simp only [hs] at hsc
    unfold fluxHeader fluxHeaderLines at hsc
    simp only [hwt, Except.map] at hsc
    cases hsc

/-- the understood walltime spellings, concretely -/
theorem C15_flux_walltime_spellings (n : Int) (s : Str) :
    FluxWalltimeOk (.int n) ∧ FluxWalltimeOk (.str "inf".toList) ∧ FluxWalltimeOk (.str []) ∧
    (s ≠ [] → s.all isDigit = true → FluxWalltimeOk (.str s)) := by
  refine ⟨⟨_, rfl⟩, ⟨"0".toList, by decide⟩, ⟨"0".toList, by decide⟩, ?_⟩
  intro hne hd
  refine ⟨natStr (digitsVal s * 60), ?_⟩
  simp only [fluxWalltime]
  have : s.isEmpty = false := by cases s <;> simp_all
  simp [this, hd]

end MaestroVerif.C15
