import MaestroVerif.Model.Exec

/-! # C04 — One live job per step; resolved steps stay resolved; no orphaned jobs (theorems are being added) -/
namespace MaestroVerif.C04
open MaestroVerif.Exec MaestroVerif.Gen

theorem C04_init_not_canceled (cfg : Cfg) : (init cfg).isCanceled = false := rfl

end MaestroVerif.C04
