import MaestroVerif.Model.Sched
import MaestroVerif.Lemmas.ExecDemo

/-!
# C04 — One live job per step; resolved steps stay resolved; no orphaned jobs
-/
namespace MaestroVerif.C04
open MaestroVerif.Exec MaestroVerif.Gen

/-- **(a) No step ever received a job while it still had a live one.** -/
theorem C04_one_live_job {cfg : Cfg} (wf : WFCfg' cfg) {g : G} (h : Reachable cfg g) :
    g.oneJob = true ∧ g.live.Nodup :=
  ⟨(invAll_reachable wf h).b.oneJob, (invAll_reachable wf h).b.liveN⟩

/-- **(b) No launch ever concerned a step that was already resolved**
(complete, failed or cancelled). -/
theorem C04_never_relaunched {cfg : Cfg} (wf : WFCfg' cfg) {g : G} (h : Reachable cfg g) :
    g.freshOk = true :=
  (invAll_reachable wf h).b.freshOk

/-- resolved steps stay resolved: the three sets only grow -/
theorem C04_resolved_monotone (cfg : Cfg) (g : G) (p : PollIn) :
    (∀ x, x ∈ g.completed → x ∈ (poll cfg g p).1.completed) ∧
    (∀ x, x ∈ g.failed → x ∈ (poll cfg g p).1.failed) ∧
    (∀ x, x ∈ g.cancelled → x ∈ (poll cfg g p).1.cancelled) :=
  ⟨(poll_completed cfg g p).1.completed, (poll_completed cfg g p).1.failed,
   (poll_completed cfg g p).1.cancelled⟩

/-- a resolved step is neither queued nor tracked, a complete step is not
failed or cancelled, and its state is FINISHED (DRYRUN in a dry run) -/
theorem C04_resolved_is_final {cfg : Cfg} (wf : WFCfg' cfg) {g : G} (h : Reachable cfg g) (i : Nat) :
    (i ∈ g.completed → i ∉ g.failed ∧ i ∉ g.cancelled ∧ i ∉ g.ready ∧ i ∉ g.inProgress ∧
        (i ≠ 0 → g.status i = .FINISHED ∨ g.status i = .DRYRUN)) ∧
    ((i ∈ g.failed ∨ i ∈ g.cancelled) → i ∉ g.ready ∧ i ∉ g.inProgress ∧ i ∉ g.completed ∧
        g.status i ≠ .INITIALIZED) := by
  have a := (invAll_reachable wf h).toInv.toInvA
  constructor
  · intro hc
    have := a.cD i hc
    exact ⟨this.1, this.2.1, this.2.2, fun hp => (a.ipD i hp).1 hc, a.cmpS i hc⟩
  · intro hb
    refine ⟨fun hr => ?_, fun hp => ?_, fun hc => ?_, a.badS i hb⟩
    · have := a.rD i hr; rcases hb with hb | hb
      · exact this.1 hb
      · exact this.2 hb
    · have := a.ipD i hp; rcases hb with hb | hb
      · exact this.2.1 hb
      · exact this.2.2.1 hb
    · have := a.cD i hc; rcases hb with hb | hb
      · exact this.1 hb
      · exact this.2.1 hb

/-- **(c) When a poll returns a final study status no job is live.** -/
theorem C04_no_orphans {cfg : Cfg} (wf : WFCfg' cfg) {g : G} (h : Reachable cfg g)
    (hv : verdict cfg g ≠ .RUNNING) : g.live = [] := by
  have A := invAll_reachable wf h
  have a := A.toInv.toInvA
  have hip : g.inProgress = [] := by
    unfold verdict at hv
    split at hv
    · rename_i hc
      simp only [Bool.and_eq_true, List.isEmpty_iff] at hc
      exact hc.2
    · split at hv
      · rename_i hall
        simp only [List.all_eq_true, List.mem_range, Bool.or_eq_true, List.contains_iff_mem] at hall
        cases hl : g.inProgress with
        | nil => rfl
        | cons x xs =>
          exfalso
          have hx : x ∈ g.inProgress := by rw [hl]; simp
          have hn := a.bnd x (Or.inr (Or.inl hx))
          have d := a.ipD x hx
          rcases hall x (by omega) with (h1 | h1) | h1
          · exact d.1 h1
          · exact d.2.1 h1
          · exact d.2.2.1 h1
      · exact absurd rfl hv
  cases hl : g.live with
  | nil => rfl
  | cons x xs =>
    have : x ∈ g.inProgress := (A.b.liveEq x).mp (by rw [hl]; simp)
    rw [hip] at this; simp at this

/-! non-vacuity -/
example : verdict demoCfg (run demoCfg demoOps) ≠ .RUNNING ∧ (run demoCfg demoOps).live = [] := by
  have h : verdict demoCfg (run demoCfg demoOps) ≠ .RUNNING := by
    rw [demo_state.2.2.2.2.2]; decide
  exact ⟨h, C04_no_orphans demo_wf demo_reachable h⟩

/-! ### the adapter side: which job was submitted -/
section Submit
open MaestroVerif.Sched

theorem dropWhile_nondigit_append (pre rest : Str) (h : ∀ c ∈ pre, c.isDigit = false) :
    (pre ++ rest).dropWhile (fun c => !c.isDigit) = rest.dropWhile (fun c => !c.isDigit) := by
  induction pre with
  | nil => rfl
  | cons a as ih =>
    have ha := h a (List.mem_cons_self ..)
    simp only [List.cons_append, List.dropWhile_cons, ha, Bool.not_false, ↓reduceIte]
    exact ih (fun c hc => h c (List.mem_cons_of_mem _ hc))

theorem takeWhile_digits_append (jid rest : Str) (hj : ∀ c ∈ jid, c.isDigit = true)
    (hr : ∀ c, rest.head? = some c → c.isDigit = false) :
    (jid ++ rest).takeWhile Char.isDigit = jid := by
  induction jid with
  | nil =>
    cases rest with
    | nil => rfl
    | cons c cs =>
      have := hr c rfl
      simp [List.takeWhile_cons, this]
  | cons a as ih =>
    have ha := hj a (List.mem_cons_self ..)
    simp only [List.cons_append, List.takeWhile_cons, ha, ↓reduceIte]
    rw [ih (fun c hc => hj c (List.mem_cons_of_mem _ hc))]

/-- **The job that `sbatch` / `bsub` accepted is the job Maestro tracks**: when the submission
command succeeds and its output carries the job number as its first run of digits
(`Submitted batch job 123`, `Submitted batch job 123 on cluster x`, `Job <123> is submitted to
queue <q>.`, with any digit-free text before it and anything not starting with a digit after it)
the adapter reports the submission as OK with exactly that number; and a failing command is
never reported as a submission. -/
theorem C04_submit_id_exact (pre jid rest : Str) (hp : ∀ c ∈ pre, c.isDigit = false)
    (hne : jid ≠ []) (hj : ∀ c ∈ jid, c.isDigit = true)
    (hr : ∀ c, rest.head? = some c → c.isDigit = false) :
    submitResult 0 (pre ++ jid ++ rest) = .ok (.OK, some jid) ∧
    ∀ rc out, rc ≠ 0 → submitResult rc out = .ok (.ERROR, none) := by
  constructor
  · unfold submitResult firstDigits
    simp only [BEq.rfl, ↓reduceIte, List.append_assoc]
    rw [dropWhile_nondigit_append pre _ hp]
    cases jid with
    | nil => exact absurd rfl hne
    | cons a as =>
      have ha := hj a (List.mem_cons_self ..)
      simp only [List.cons_append, List.dropWhile_cons, ha, Bool.not_true, Bool.false_eq_true, ↓reduceIte]
      have := takeWhile_digits_append (a :: as) rest hj hr
      simp only [List.cons_append] at this
      rw [this]
  · intro rc out hrc
    unfold submitResult
    have : (rc == 0) = false := by simpa using hrc
    simp [this]

example : (match submitResult 0 "Submitted batch job 4100001 on cluster alpha2\n".toList,
      submitResult 0 "Job <77> is submitted to queue <batch>.\n".toList,
      submitResult 1 "Submitted batch job 5".toList with
    | .ok (.OK, some a), .ok (.OK, some b), .ok (.ERROR, none) => a == "4100001".toList && b == "77".toList
    | _, _, _ => false) = true := by decide +kernel

end Submit

end MaestroVerif.C04
