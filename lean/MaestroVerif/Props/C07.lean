import MaestroVerif.Lemmas.ConductorLemmas
import MaestroVerif.Lemmas.ExecDemo

/-!
# C07 — After a cancel request nothing new is submitted and live jobs are cancelled

The `cancel` operation may be inserted between any two polls (`Reachable`), i.e.
at every point at which the conductor can see the lock file.  The adapters'
`cancel_jobs` are covered by the scheduler model (`Props/C16`-side tables and the
adapter correspondence of the harness).
-/
namespace MaestroVerif.C07
open MaestroVerif.Exec MaestroVerif.Gen

/-- **`cancel_study` passes exactly the jobs of the in-progress steps to the
scheduler's cancel command, sets the flag and changes nothing else**; it is a
total function (it cannot raise), in particular with nothing in flight. -/
theorem C07_cancel_args (g : G) :
    (cancel g).log = g.log ++ [Ev.cancelJobs g.inProgress] ∧ (cancel g).isCanceled = true ∧
    (cancel g).inProgress = g.inProgress ∧ (cancel g).ready = g.ready ∧
    (cancel g).status = g.status ∧ (cancel g).completed = g.completed := by
  simp [cancel, emit]

/-- … and those are exactly the live jobs (ledger = tracking, C03). -/
theorem C07_cancel_covers_live {cfg : Cfg} (wf : WFCfg' cfg) {g : G} (h : Reachable cfg g) :
    ∀ x, x ∈ g.live ↔ x ∈ g.inProgress :=
  (invAll_reachable wf h).b.liveEq

/-- **After the request a poll performs the status query and nothing else**: no
script generation, no submission, no restart, no resubmission, no local run —
whatever the scheduler reports (TIMEDOUT and HWFAILURE included). -/
theorem C07_no_submit_after (cfg : Cfg) (g : G) (p : PollIn) (hc : g.isCanceled = true) :
    (poll cfg g p).1.log = g.log ++ (if cfg.dry then [] else [Ev.check g.inProgress]) :=
  poll_log_canceled cfg g p hc

/-- the same as a history statement: no launch was ever decided after a cancel -/
theorem C07_never_launched_after_cancel {cfg : Cfg} (wf : WFCfg' cfg) {g : G}
    (h : Reachable cfg g) : g.cancelOk = true :=
  (invAll_reachable wf h).b.cancelOk

/-- the request is never forgotten -/
theorem C07_flag_persists (cfg : Cfg) (g : G) (p : PollIn) :
    (poll cfg g p).1.isCanceled = g.isCanceled :=
  poll_isCanceled cfg g p

/-- **The study ends CANCELLED as soon as the in-flight jobs have drained.** -/
theorem C07_ends_cancelled (cfg : Cfg) (g : G) (hc : g.isCanceled = true) (hp : g.inProgress = []) :
    verdict cfg g = .CANCELLED := by
  simp [verdict, hc, hp]

/-- … and not before: while a job is in flight after the request the verdict is
RUNNING unless every step is already resolved. -/
theorem C07_waits_for_drain (cfg : Cfg) (g : G) (p : PollIn) (hd : cfg.dry = false)
    (hcode : p.code ≠ .ERROR) :
    (poll cfg g p).2 = .status (verdict cfg (poll cfg g p).1) := by
  cases hc : p.code with
  | ERROR => exact absurd hc hcode
  | OK => simp [poll, hd, hc]
  | NOJOBS => simp [poll, hd, hc]

/-! non-vacuity: the demo history contains a cancel request followed by a poll -/
example : (run demoCfg demoOps).isCanceled = true ∧ (run demoCfg demoOps).cancelOk = true ∧
    verdict demoCfg (run demoCfg demoOps) = .CANCELLED :=
  ⟨demo_state.2.2.2.1, C07_never_launched_after_cancel demo_wf demo_reachable, demo_state.2.2.2.2.2⟩

/-! ### the conductor loop (`Model/Conductor.lean`, `Conductor.monitor_study`) -/

/-- **the request is acted on before anything else is launched**: in the iteration that finds the
cancel lock file (and gets its file lock) `cancel_study` is called and the file removed *before*
`execute_ready_steps`, which therefore runs with the cancel flag set and (`C07_no_submit_after`)
submits nothing -/
theorem C07_request_acted_on_before_polling (cfg : Cfg) (s : Conductor.CS) (it : Conductor.Iter)
    (hl : it.lock = true) (ha : it.acquire = true) :
    (Conductor.iter cfg s it).1.g.isCanceled = true ∧
    ∃ tail, (Conductor.iter cfg s it).1.trace =
      s.trace ++ [.lockCheck true, .lockAcquire true, .cancelStudy, .lockRemove, .poll] ++ tail :=
  Conductor.cancel_observed cfg s it hl ha

/-- a time-out on the lock of the request file loses nothing: the file stays (the next iteration
sees the request again) -/
theorem C07_request_kept_on_lock_timeout (cfg : Cfg) (s : Conductor.CS) (it : Conductor.Iter)
    (hl : it.lock = true) (ha : it.acquire = false) :
    Conductor.CEv.lockRemove ∉ Conductor.iterTrace it.lock it.acquire (Conductor.iter cfg s it).2 ∧
    Conductor.CEv.cancelStudy ∉ Conductor.iterTrace it.lock it.acquire (Conductor.iter cfg s it).2 ∧
    (Conductor.iter cfg s it).1.g = (Exec.poll cfg s.g it.answer).1 :=
  Conductor.request_kept_on_timeout cfg s it hl ha

end MaestroVerif.C07
