import MaestroVerif.Model.Exec

/-! # C07 — After a cancel request nothing new is submitted and live jobs are cancelled (theorems are being added) -/
namespace MaestroVerif.C07
open MaestroVerif.Exec MaestroVerif.Gen

theorem C07_init_not_canceled (cfg : Cfg) : (init cfg).isCanceled = false := rfl

end MaestroVerif.C07
