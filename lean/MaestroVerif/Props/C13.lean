import MaestroVerif.Lemmas.SpecLemmas
import MaestroVerif.Gen.Schema
import MaestroVerif.Gen.Enums

/-!
# C13 — Malformed specifications are rejected cleanly; accepted ones are usable

`Model/Spec.lean` models loading, verification, conversion and `Study`
construction; the four schemas are `Gen/Schema.lean`, regenerated from
`yamlspecification.json` on every run, so every statement below about "the
schema" is re-proved against the current file.  The unrestricted "never an
internal error" is false of the code: the proved counterexamples at the end are
the known findings, and `C13_no_internal_error_partial` carries the hypotheses
that exclude exactly them.
-/
namespace MaestroVerif.C13
open MaestroVerif.Spec MaestroVerif.Gen MaestroVerif.Subst

/-- the translator expressed every construct of the schema file, and the
evaluator's fuel covers its nesting depth -/
theorem C13_schema_translated : schemaUnsupported = [] ∧ schemaDepth < schemaFuel := by decide

/-- **Every priority name the schema admits is understood by
`StepPriority.from_str`** (both tables regenerated from the source). -/
theorem C13_priorities_understood :
    ∀ s ∈ schemaPriorityEnum, (StepPriority.fromChars s.toList).isSome = true := by
  decide

/-! ## what the schemas demand (accept-soundness, section by section) -/

/-- the keys the schema declares for `run` -/
def runKeys : List Str := ((stepSchema.prop "run").getD default).props.map (·.1)

/-- the documented rules for one study step -/
structure WFStep (s : Json) : Prop where
  mapping : ∃ kvs, s = .obj kvs ∧ ∀ kv ∈ kvs, kv.1 ∈ ["name".toList, "description".toList, "run".toList]
  name : ∃ n, s.get? "name" = some (.str n) ∧ n ≠ []
  description : ∃ d, s.get? "description" = some (.str d) ∧ d ≠ []
  run : ∃ rkvs, s.get? "run" = some (.obj rkvs) ∧ (∀ kv ∈ rkvs, kv.1 ∈ runKeys) ∧
    (∃ c, (Json.obj rkvs).get? "cmd" = some (.str c) ∧ c ≠ []) ∧
    (∀ d, (Json.obj rkvs).get? "depends" = some d → ∃ l, d = .arr l ∧ ∀ x ∈ l, ∃ ds, x = .str ds)

theorem mem_of_any_key {props : List (Str × Schema)} {k : Str} (h : props.any (·.1 == k) = true) :
    k ∈ props.map (·.1) := by
  simp only [List.any_eq_true] at h
  obtain ⟨p, hp, hk⟩ := h
  have : p.1 = k := by simpa using hk
  exact List.mem_map.mpr ⟨p, hp, this⟩

/-- **A step the schema accepts is a mapping with exactly the documented keys,
a non-empty name, description and command, only declared `run` keys, and string
dependencies.** -/
theorem C13_step_wellformed (s : Json) (h : valid schemaFuel stepSchema s = true) : WFStep s := by
  have h' : valid (11 + 1) stepSchema s = true := h
  obtain ⟨kvs, rfl⟩ := obj_of_tyOk (valid_type h' (by rfl))
  have hclosed := valid_closed h' (by rfl) (by rfl)
  -- name, description
  obtain ⟨vn, hvn⟩ := has_of_required (k := "name") h' (by decide)
  obtain ⟨vd, hvd⟩ := has_of_required (k := "description") h' (by decide)
  obtain ⟨vr, hvr⟩ := has_of_required (k := "run") h' (by decide)
  obtain ⟨nsch, hns, hnty⟩ : ∃ x, stepSchema.prop "name" = some x ∧ x.ty = some .string ∧ x.minLength = some 1 :=
    ⟨_, rfl, rfl, rfl⟩
  obtain ⟨dsch, hds, hdty⟩ : ∃ x, stepSchema.prop "description" = some x ∧ x.ty = some .string ∧
      x.minLength = some 1 := ⟨_, rfl, rfl, rfl⟩
  obtain ⟨rsch, hrs, hrty, hrclosed, hrpp, hrreq, ⟨csch, hcs, hcty, hcml⟩,
      ⟨dpsch, itsch, hdp, hdpty, hdpit, hitty⟩⟩ :
      ∃ x, stepSchema.prop "run" = some x ∧ x.ty = some .object ∧ x.noAdditional = true ∧
        x.patternProps = none ∧ "cmd".toList ∈ x.required ∧
        (∃ c, x.prop "cmd" = some c ∧ c.ty = some .string ∧ c.minLength = some 1) ∧
        (∃ dp it, x.prop "depends" = some dp ∧ dp.ty = some .array ∧ dp.items = some it ∧
          it.ty = some .string) :=
    ⟨_, rfl, rfl, rfl, rfl, by decide, ⟨_, rfl, rfl, rfl⟩, ⟨_, _, rfl, rfl, rfl, rfl⟩⟩
  have vn_ok := valid_prop' h' hns vn hvn
  have vd_ok := valid_prop' h' hds vd hvd
  have vr_ok : valid (10 + 1) rsch vr = true := valid_prop' h' hrs vr hvr
  obtain ⟨n, hn, hnne⟩ := nonempty_str (fuel := 10) vn_ok hnty.1 hnty.2
  obtain ⟨d, hd, hdne⟩ := nonempty_str (fuel := 10) vd_ok hdty.1 hdty.2
  obtain ⟨rkvs, hrk⟩ := obj_of_tyOk (valid_type vr_ok hrty)
  subst hrk
  obtain ⟨vc, hvc⟩ := has_of_required (k := "cmd") vr_ok hrreq
  have vc_ok : valid (9 + 1) csch vc = true := valid_prop' vr_ok hcs vc hvc
  obtain ⟨c, hc, hcne⟩ := nonempty_str vc_ok hcty hcml
  refine ⟨⟨kvs, rfl, ?_⟩, ⟨n, by rw [hvn, hn], hnne⟩, ⟨d, by rw [hvd, hd], hdne⟩,
    ⟨rkvs, hvr, ?_, ⟨c, by rw [hvc, hc], hcne⟩, ?_⟩⟩
  · intro kv hkv
    have := mem_of_any_key (hclosed kv hkv)
    simpa [stepSchema, Schema.props] using this
  · intro kv hkv
    have := mem_of_any_key (valid_closed vr_ok hrclosed hrpp kv hkv)
    have hrk : runKeys = rsch.props.map (·.1) := by
      unfold runKeys; rw [hrs]; rfl
    rw [hrk]; exact this
  · intro dv hdv
    have dv_ok : valid (9 + 1) dpsch dv = true := valid_prop' vr_ok hdp dv hdv
    obtain ⟨l, hl⟩ := arr_of_tyOk (valid_type dv_ok hdpty)
    subst hl
    refine ⟨l, rfl, ?_⟩
    intro x hx
    have x_ok : valid (8 + 1) itsch x = true := valid_items dv_ok hdpit x hx
    exact str_of_tyOk (valid_type x_ok hitty)

/-- **A description block the schema accepts has a non-empty name and description.** -/
theorem C13_description_wellformed (d : Json) (h : valid schemaFuel descriptionSchema d = true) :
    (∃ n, d.get? "name" = some (.str n) ∧ n ≠ []) ∧ (∃ t, d.get? "description" = some (.str t) ∧ t ≠ []) := by
  have h' : valid (11 + 1) descriptionSchema d = true := h
  obtain ⟨kvs, rfl⟩ := obj_of_tyOk (valid_type h' (by rfl))
  obtain ⟨vn, hvn⟩ := has_of_required (k := "name") h' (by decide)
  obtain ⟨vd, hvd⟩ := has_of_required (k := "description") h' (by decide)
  obtain ⟨nsch, hns, hnty⟩ : ∃ x, descriptionSchema.prop "name" = some x ∧ x.ty = some .string ∧
      x.minLength = some 1 := ⟨_, rfl, rfl, rfl⟩
  obtain ⟨dsch, hds, hdty⟩ : ∃ x, descriptionSchema.prop "description" = some x ∧ x.ty = some .string ∧
      x.minLength = some 1 := ⟨_, rfl, rfl, rfl⟩
  have vn_ok := valid_prop' h' hns vn hvn
  have vd_ok := valid_prop' h' hds vd hvd
  obtain ⟨n, hn, hnne⟩ := nonempty_str (fuel := 10) vn_ok hnty.1 hnty.2
  obtain ⟨t, ht, htne⟩ := nonempty_str (fuel := 10) vd_ok hdty.1 hdty.2
  exact ⟨⟨n, by rw [hvn, hn], hnne⟩, ⟨t, by rw [hvd, ht], htne⟩⟩

/-- **A parameter the schema accepts has a non-empty value list, a non-empty
label string and no other key.** -/
theorem C13_parameter_wellformed (p : Json) (h : valid schemaFuel paramSchema p = true) :
    ∃ kvs, p = .obj kvs ∧ (∀ kv ∈ kvs, kv.1 ∈ ["values".toList, "label".toList]) ∧
      (∃ l, p.get? "values" = some (.arr l) ∧ l ≠ []) ∧ (∃ s, p.get? "label" = some (.str s) ∧ s ≠ []) := by
  have h' : valid (11 + 1) paramSchema p = true := h
  obtain ⟨kvs, rfl⟩ := obj_of_tyOk (valid_type h' (by rfl))
  have hclosed := valid_closed h' (by rfl) (by rfl)
  obtain ⟨vv, hvv⟩ := has_of_required (k := "values") h' (by decide)
  obtain ⟨vl, hvl⟩ := has_of_required (k := "label") h' (by decide)
  obtain ⟨vsch, hvs, hvty⟩ : ∃ x, paramSchema.prop "values" = some x ∧ x.ty = some .array ∧
      x.minItems = some 1 := ⟨_, rfl, rfl, rfl⟩
  obtain ⟨lsch, hls, hlty⟩ : ∃ x, paramSchema.prop "label" = some x ∧ x.ty = some .string ∧
      x.minLength = some 1 := ⟨_, rfl, rfl, rfl⟩
  have vv_ok : valid (10 + 1) vsch vv = true := valid_prop' h' hvs vv hvv
  have vl_ok : valid (10 + 1) lsch vl = true := valid_prop' h' hls vl hvl
  obtain ⟨l, hl⟩ := arr_of_tyOk (valid_type vv_ok hvty.1)
  subst hl
  have hlen := valid_minItems vv_ok hvty.2
  obtain ⟨s, hs, hsne⟩ := nonempty_str vl_ok hlty.1 hlty.2
  refine ⟨kvs, rfl, ?_, ⟨l, hvv, by intro h0; simp [h0] at hlen⟩, ⟨s, by rw [hvl, hs], hsne⟩⟩
  intro kv hkv
  have := mem_of_any_key (hclosed kv hkv)
  simpa [paramSchema, Schema.props] using this


/-! ## acceptance -/

theorem step_named (s : Json) (h : valid schemaFuel stepSchema s = true) : namedStep s := by
  obtain ⟨n, hn, _⟩ := (C13_step_wellformed s h).name
  exact ⟨n, by simp [stepNameOf, hn]⟩

/-- the documented rules for a whole specification -/
structure WellFormed (doc : Json) : Prop where
  description : valid schemaFuel descriptionSchema ((doc.get? "description").getD (.obj [])) = true
  env : valid schemaFuel envSchema ((doc.get? "env").getD defaultEnv) = true
  steps : ∃ steps, doc.get? "study" = some (.arr steps) ∧ steps ≠ [] ∧
    (∀ s ∈ steps, WFStep s) ∧
    (steps.map nameStr).Nodup ∧
    (∀ s ∈ steps, ∀ ds, Json.str ds ∈ stepDepends s → stripCombos ds ≠ nameStr s) ∧
    (∀ pre post s, steps = pre ++ s :: post → ∀ d ∈ stepDepends s, ∃ ds, d = .str ds ∧
      (stripCombos ds ∈ pre.map nameStr ∨ stripCombos ds = sourceName))
  params : ∃ ps, (doc.get? "global.parameters").getD (.obj []) = .obj ps ∧
    (∀ p ∈ ps, valid schemaFuel paramSchema p.2 = true) ∧ ∃ n, ∀ p ∈ ps, valuesLen p.2 = n

/-- **Accept-soundness**: a specification that gets as far as a constructed
`Study` satisfies the documented rules — schema-valid description, environment,
steps and parameters (with the consequences proved above), at least one step,
pairwise distinct step names, no self-dependency, every dependency naming a
step defined before it, parameter value lists of one length.  Contrapositive:
**a document violating any of these is not accepted.** -/
theorem C13_accept_sound (doc : Json) (h : load schemas doc = .accepted) : WellFormed doc := by
  unfold load at h
  cases doc with
  | obj kvs =>
    simp only at h
    by_cases h1 : valid schemaFuel schemas.description (((Json.obj kvs).get? "description").getD (.obj [])) = true
    · by_cases h2 : valid schemaFuel schemas.env (((Json.obj kvs).get? "env").getD defaultEnv) = true
      · simp only [h1, h2, Bool.not_true, Bool.false_eq_true, ↓reduceIte] at h
        split at h
        · simp at h
        · simp at h
        · by_cases htruthy : (((Json.obj kvs).get? "study").getD (.arr [])).truthy = true
          · simp only [htruthy, Bool.not_true, Bool.false_eq_true, ↓reduceIte] at h
            cases hst : ((Json.obj kvs).get? "study").getD (.arr []) with
            | arr steps =>
              simp only [hst] at h
              split at h
              · simp at h
              · simp at h
              · rename_i hvs
                cases hgl : ((Json.obj kvs).get? "global.parameters").getD (.obj []) with
                | obj ps =>
                  simp only [hgl] at h
                  split at h
                  · simp at h
                  · simp at h
                  · rename_i hvp
                    split at h
                    · simp at h
                    · simp at h
                    · split at h
                      · simp at h
                      · split at h
                        · simp at h
                        · rename_i _ _ _ _ _ _
                          have hvs' := verifySteps_accepted schemas.step step_named steps [] (by simpa using hvs)
                          obtain ⟨v1, v2, v3⟩ := hvs'
                          have hedges := edgesOutcome_accepted steps [] h
                          obtain ⟨p1, n, _, p2⟩ := verifyParams_accepted schemas.param ps none hvp
                          have hsome : (Json.obj kvs).get? "study" = some (.arr steps) := by
                            cases hg : (Json.obj kvs).get? "study" with
                            | none =>
                              exfalso
                              rw [hg] at htruthy
                              simp [Json.truthy] at htruthy
                            | some v => rw [hg] at hst; simpa using hst
                          refine ⟨h1, h2, ⟨steps, hsome, ?_, ?_, ?_, v3, ?_⟩, ⟨ps, hgl, p1, n, p2⟩⟩
                          · intro h0
                            subst h0
                            rw [hst] at htruthy
                            simp [Json.truthy] at htruthy
                          · intro s hs
                            exact C13_step_wellformed s (v1 s hs)
                          · have : ([] ++ steps.map nameStr).Nodup = ([] : List Str).Nodup := v2
                            simpa using this
                          · intro pre post s hs d hd
                            obtain ⟨ds, hds, hmem⟩ := hedges pre post s hs d hd
                            exact ⟨ds, hds, by simpa using hmem⟩
                | _ => simp [hgl] at h
            | _ => simp [hst] at h
          · simp [htruthy] at h
      · simp [h1, h2] at h
    · simp [h1] at h
  | _ => simp at h


/-! ## internal errors -/

theorem stepDepends_strings (s : Json) (h : WFStep s) : ∀ d ∈ stepDepends s, ∃ ds, d = .str ds := by
  obtain ⟨rkvs, hrun, _, _, hdep⟩ := h.run
  intro d hd
  unfold stepDepends at hd
  rw [hrun] at hd
  simp only [Option.getD_some] at hd
  cases hg : (Json.obj rkvs).get? "depends" with
  | none => rw [hg] at hd; simp [arrItems] at hd
  | some dv =>
    obtain ⟨l, hl, hall⟩ := hdep dv hg
    rw [hg, hl] at hd
    simp only [Option.getD_some, arrItems] at hd
    exact hall d hd

/-- **The only places an internal error can come from**: `_verify_dependencies`
indexing a `path` / `git` / `spack` block, a non-string `sources` entry, or a
step that took the reserved name `_source`.  Every other malformed document is
either rejected with a diagnostic or accepted. -/
theorem C13_no_internal_error_partial (doc : Json) (h : load schemas doc = .crash) :
    verifyEnvNames ((doc.get? "env").getD defaultEnv) = .crash ∨
    sourcesOutcome (arrItems ((((doc.get? "env").getD defaultEnv).get? "sources").getD (.arr []))) = .crash ∨
    ∃ s ∈ arrItems ((doc.get? "study").getD (.arr [])), nameStr s = sourceName := by
  unfold load at h
  cases doc with
  | obj kvs =>
    simp only at h
    split at h
    · simp at h
    · split at h
      · simp at h
      · split at h
        · simp at h
        · rename_i hc; exact Or.inl hc
        · split at h
          · simp at h
          · cases hst : ((Json.obj kvs).get? "study").getD (.arr []) with
            | arr steps =>
              simp only [hst] at h
              split at h
              · simp at h
              · rename_i hc; exact absurd hc (verifySteps_ne_crash _ _ _)
              · rename_i hvs
                cases hgl : ((Json.obj kvs).get? "global.parameters").getD (.obj []) with
                | obj ps =>
                  simp only [hgl] at h
                  split at h
                  · simp at h
                  · rename_i hc; exact absurd hc (verifyParams_ne_crash _ _ _)
                  · split at h
                    · simp at h
                    · rename_i hc; exact Or.inr (Or.inl hc)
                    · split at h
                      · simp at h
                      · split at h
                        · simp at h
                        · right; right
                          obtain ⟨s, hs, hc⟩ := edgesOutcome_crash steps [] h
                          refine ⟨s, by simpa [arrItems] using hs, ?_⟩
                          rcases hc with hc | ⟨d, hd, hnot⟩
                          · exact hc
                          · exfalso
                            have hv := (verifySteps_accepted schemas.step step_named steps []
                              (by simpa using hvs)).1 s hs
                            obtain ⟨ds, hds⟩ := stepDepends_strings s (C13_step_wellformed s hv) d hd
                            exact hnot ds hds
                | _ => simp [hgl] at h
            | _ => simp [hst] at h
  | _ => simp at h

/-- **An accepted specification keeps every step, in order**: unless a step
took the reserved name `_source`, the study's step list is the document's. -/
theorem C13_accepted_steps (doc : Json) (h : load schemas doc = .accepted)
    (hres : ∀ s ∈ arrItems ((doc.get? "study").getD (.arr [])), nameStr s ≠ sourceName) :
    stepNames doc = (arrItems ((doc.get? "study").getD (.arr []))).map nameStr ∧ (stepNames doc).Nodup := by
  obtain ⟨steps, hs, _, _, hnodup, _, _⟩ := (C13_accept_sound doc h).steps
  have hfil : stepNames doc = (arrItems ((doc.get? "study").getD (.arr []))).map nameStr := by
    unfold stepNames
    apply List.filter_eq_self.mpr
    intro n hn
    obtain ⟨s, hsm, rfl⟩ := List.mem_map.mp hn
    have := hres s hsm
    simpa [nameStr] using this
  refine ⟨hfil, ?_⟩
  rw [hfil, hs]
  simpa [arrItems] using hnodup

/-! ## proved counterexamples of the unrestricted statement (known findings) -/

def baseSteps : Json :=
  .arr [.obj [("name".toList, .str "a".toList), ("description".toList, .str "d".toList),
              ("run".toList, .obj [("cmd".toList, .str "ls".toList)])]]

def baseDescription : Json := .obj [("name".toList, .str "s".toList), ("description".toList, .str "d".toList)]

/-- a schema-valid `spack` dependency block is an internal error -/
theorem C13_counterexample_spack :
    load schemas (.obj [("description".toList, baseDescription), ("study".toList, baseSteps),
      ("env".toList, .obj [("dependencies".toList, .obj [("spack".toList,
        .obj [("type".toList, .str "t".toList), ("package_name".toList, .str "p".toList)])])])]) = .crash := by
  decide +kernel

/-- a non-string `sources` entry is an internal error -/
theorem C13_counterexample_source :
    load schemas (.obj [("description".toList, baseDescription), ("study".toList, baseSteps),
      ("env".toList, .obj [("sources".toList, .arr [.int 5])])]) = .crash := by
  decide +kernel

/-- a step named `_source` closes a cycle (with a dependency) or vanishes (without) -/
theorem C13_counterexample_reserved_name :
    let step (deps : List Json) : Json :=
      .obj [("name".toList, .str "_source".toList), ("description".toList, .str "d".toList),
            ("run".toList, .obj [("cmd".toList, .str "ls".toList), ("depends".toList, .arr deps)])]
    let doc (deps : List Json) : Json :=
      .obj [("description".toList, baseDescription),
            ("study".toList, .arr (arrItems baseSteps ++ [step deps]))]
    load schemas (doc [.str "a".toList]) = .crash ∧
    load schemas (doc []) = .accepted ∧ stepNames (doc []) = ["a".toList] := by
  decide +kernel

/-! ## non-vacuity: the repository's smallest kind of specification is accepted -/
example :
    load schemas (.obj [("description".toList, baseDescription), ("study".toList, baseSteps)]) = .accepted := by
  decide +kernel

example : load schemas (.obj [("study".toList, baseSteps)]) = .rejected ∧
    load schemas (.obj [("description".toList, baseDescription), ("study".toList, .arr [])]) = .rejected ∧
    load schemas .null = .rejected := by decide +kernel

end MaestroVerif.C13
