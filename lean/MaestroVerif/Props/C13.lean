import MaestroVerif.Lemmas.SpecLemmas
import MaestroVerif.Gen.Schema
import MaestroVerif.Gen.Enums

/-!
# C13 — Malformed specifications are rejected cleanly; accepted ones are usable

`Model/Spec.lean` models loading, verification, conversion and `Study`
construction; the four schemas are `Gen/Schema.lean`, regenerated from
`yamlspecification.json` on every run, so every statement below about "the
schema" is re-proved against the current file.  The unrestricted "never an
internal error" is false of the code: the proved counterexamples at the end are
the known findings, and `C13_no_internal_error_partial` carries the hypotheses
that exclude exactly them.
-/
namespace MaestroVerif.C13
open MaestroVerif.Spec MaestroVerif.Gen MaestroVerif.Subst

/-- the translator expressed every construct of the schema file, and the
evaluator's fuel covers its nesting depth -/
theorem C13_schema_translated : schemaUnsupported = [] ∧ schemaDepth < schemaFuel := by decide

/-- **Every priority name the schema admits is understood by
`StepPriority.from_str`** (both tables regenerated from the source). -/
theorem C13_priorities_understood :
    ∀ s ∈ schemaPriorityEnum, (StepPriority.fromChars s.toList).isSome = true := by
  decide

/-! ## what the schemas demand (accept-soundness, section by section) -/

/-- the keys the schema declares for `run` -/
def runKeys : List Str := ((stepSchema.prop "run").getD default).props.map (·.1)

/-- the documented rules for one study step -/
structure WFStep (s : Json) : Prop where
  mapping : ∃ kvs, s = .obj kvs ∧ ∀ kv ∈ kvs, kv.1 ∈ ["name".toList, "description".toList, "run".toList]
  name : ∃ n, s.get? "name" = some (.str n) ∧ n ≠ []
  description : ∃ d, s.get? "description" = some (.str d) ∧ d ≠ []
  run : ∃ rkvs, s.get? "run" = some (.obj rkvs) ∧ (∀ kv ∈ rkvs, kv.1 ∈ runKeys) ∧
    (∃ c, (Json.obj rkvs).get? "cmd" = some (.str c) ∧ c ≠ []) ∧
    (∀ d, (Json.obj rkvs).get? "depends" = some d → ∃ l, d = .arr l ∧ ∀ x ∈ l, ∃ ds, x = .str ds)

theorem mem_of_any_key {props : List (Str × Schema)} {k : Str} (h : props.any (·.1 == k) = true) :
    k ∈ props.map (·.1) := by
  simp only [List.any_eq_true] at h
  obtain ⟨p, hp, hk⟩ := h
  have : p.1 = k := by simpa using hk
  exact List.mem_map.mpr ⟨p, hp, this⟩

/-- **A step the schema accepts is a mapping with exactly the documented keys,
a non-empty name, description and command, only declared `run` keys, and string
dependencies.** -/
theorem C13_step_wellformed (s : Json) (h : valid schemaFuel stepSchema s = true) : WFStep s := by
  have h' : valid (11 + 1) stepSchema s = true := h
  obtain ⟨kvs, rfl⟩ := obj_of_tyOk (valid_type h' (by rfl))
  have hclosed := valid_closed h' (by rfl) (by rfl)
  -- name, description
  obtain ⟨vn, hvn⟩ := has_of_required (k := "name") h' (by decide)
  obtain ⟨vd, hvd⟩ := has_of_required (k := "description") h' (by decide)
  obtain ⟨vr, hvr⟩ := has_of_required (k := "run") h' (by decide)
  obtain ⟨nsch, hns, hnty⟩ : ∃ x, stepSchema.prop "name" = some x ∧ x.ty = some .string ∧ x.minLength = some 1 :=
    ⟨_, rfl, rfl, rfl⟩
  obtain ⟨dsch, hds, hdty⟩ : ∃ x, stepSchema.prop "description" = some x ∧ x.ty = some .string ∧
      x.minLength = some 1 := ⟨_, rfl, rfl, rfl⟩
  obtain ⟨rsch, hrs, hrty, hrclosed, hrpp, hrreq, ⟨csch, hcs, hcty, hcml⟩,
      ⟨dpsch, itsch, hdp, hdpty, hdpit, hitty⟩⟩ :
      ∃ x, stepSchema.prop "run" = some x ∧ x.ty = some .object ∧ x.noAdditional = true ∧
        x.patternProps = none ∧ "cmd".toList ∈ x.required ∧
        (∃ c, x.prop "cmd" = some c ∧ c.ty = some .string ∧ c.minLength = some 1) ∧
        (∃ dp it, x.prop "depends" = some dp ∧ dp.ty = some .array ∧ dp.items = some it ∧
          it.ty = some .string) :=
    ⟨_, rfl, rfl, rfl, rfl, by decide, ⟨_, rfl, rfl, rfl⟩, ⟨_, _, rfl, rfl, rfl, rfl⟩⟩
  have vn_ok := valid_prop' h' hns vn hvn
  have vd_ok := valid_prop' h' hds vd hvd
  have vr_ok : valid (10 + 1) rsch vr = true := valid_prop' h' hrs vr hvr
  obtain ⟨n, hn, hnne⟩ := nonempty_str (fuel := 10) vn_ok hnty.1 hnty.2
  obtain ⟨d, hd, hdne⟩ := nonempty_str (fuel := 10) vd_ok hdty.1 hdty.2
  obtain ⟨rkvs, hrk⟩ := obj_of_tyOk (valid_type vr_ok hrty)
  subst hrk
  obtain ⟨vc, hvc⟩ := has_of_required (k := "cmd") vr_ok hrreq
  have vc_ok : valid (9 + 1) csch vc = true := valid_prop' vr_ok hcs vc hvc
  obtain ⟨c, hc, hcne⟩ := nonempty_str vc_ok hcty hcml
  refine ⟨⟨kvs, rfl, ?_⟩, ⟨n, by rw [hvn, hn], hnne⟩, ⟨d, by rw [hvd, hd], hdne⟩,
    ⟨rkvs, hvr, ?_, ⟨c, by rw [hvc, hc], hcne⟩, ?_⟩⟩
  · intro kv hkv
    have := mem_of_any_key (hclosed kv hkv)
    simpa [stepSchema, Schema.props] using this
  · intro kv hkv
    have := mem_of_any_key (valid_closed vr_ok hrclosed hrpp kv hkv)
    have hrk : runKeys = rsch.props.map (·.1) := by
      unfold runKeys; rw [hrs]; rfl
    rw [hrk]; exact this
  · intro dv hdv
    have dv_ok : valid (9 + 1) dpsch dv = true := valid_prop' vr_ok hdp dv hdv
    obtain ⟨l, hl⟩ := arr_of_tyOk (valid_type dv_ok hdpty)
    subst hl
    refine ⟨l, rfl, ?_⟩
    intro x hx
    have x_ok : valid (8 + 1) itsch x = true := valid_items dv_ok hdpit x hx
    exact str_of_tyOk (valid_type x_ok hitty)

/-- **A description block the schema accepts has a non-empty name and description.** -/
theorem C13_description_wellformed (d : Json) (h : valid schemaFuel descriptionSchema d = true) :
    (∃ n, d.get? "name" = some (.str n) ∧ n ≠ []) ∧ (∃ t, d.get? "description" = some (.str t) ∧ t ≠ []) := by
  have h' : valid (11 + 1) descriptionSchema d = true := h
  obtain ⟨kvs, rfl⟩ := obj_of_tyOk (valid_type h' (by rfl))
  obtain ⟨vn, hvn⟩ := has_of_required (k := "name") h' (by decide)
  obtain ⟨vd, hvd⟩ := has_of_required (k := "description") h' (by decide)
  obtain ⟨nsch, hns, hnty⟩ : ∃ x, descriptionSchema.prop "name" = some x ∧ x.ty = some .string ∧
      x.minLength = some 1 := ⟨_, rfl, rfl, rfl⟩
  obtain ⟨dsch, hds, hdty⟩ : ∃ x, descriptionSchema.prop "description" = some x ∧ x.ty = some .string ∧
      x.minLength = some 1 := ⟨_, rfl, rfl, rfl⟩
  have vn_ok := valid_prop' h' hns vn hvn
  have vd_ok := valid_prop' h' hds vd hvd
  obtain ⟨n, hn, hnne⟩ := nonempty_str (fuel := 10) vn_ok hnty.1 hnty.2
  obtain ⟨t, ht, htne⟩ := nonempty_str (fuel := 10) vd_ok hdty.1 hdty.2
  exact ⟨⟨n, by rw [hvn, hn], hnne⟩, ⟨t, by rw [hvd, ht], htne⟩⟩

/-- **A parameter the schema accepts has a non-empty value list, a non-empty
label string and no other key.** -/
theorem C13_parameter_wellformed (p : Json) (h : valid schemaFuel paramSchema p = true) :
    ∃ kvs, p = .obj kvs ∧ (∀ kv ∈ kvs, kv.1 ∈ ["values".toList, "label".toList]) ∧
      (∃ l, p.get? "values" = some (.arr l) ∧ l ≠ []) ∧ (∃ s, p.get? "label" = some (.str s) ∧ s ≠ []) := by
  have h' : valid (11 + 1) paramSchema p = true := h
  obtain ⟨kvs, rfl⟩ := obj_of_tyOk (valid_type h' (by rfl))
  have hclosed := valid_closed h' (by rfl) (by rfl)
  obtain ⟨vv, hvv⟩ := has_of_required (k := "values") h' (by decide)
  obtain ⟨vl, hvl⟩ := has_of_required (k := "label") h' (by decide)
  obtain ⟨vsch, hvs, hvty⟩ : ∃ x, paramSchema.prop "values" = some x ∧ x.ty = some .array ∧
      x.minItems = some 1 := ⟨_, rfl, rfl, rfl⟩
  obtain ⟨lsch, hls, hlty⟩ : ∃ x, paramSchema.prop "label" = some x ∧ x.ty = some .string ∧
      x.minLength = some 1 := ⟨_, rfl, rfl, rfl⟩
  have vv_ok : valid (10 + 1) vsch vv = true := valid_prop' h' hvs vv hvv
  have vl_ok : valid (10 + 1) lsch vl = true := valid_prop' h' hls vl hvl
  obtain ⟨l, hl⟩ := arr_of_tyOk (valid_type vv_ok hvty.1)
  subst hl
  have hlen := valid_minItems vv_ok hvty.2
  obtain ⟨s, hs, hsne⟩ := nonempty_str vl_ok hlty.1 hlty.2
  refine ⟨kvs, rfl, ?_, ⟨l, hvv, by intro h0; simp [h0] at hlen⟩, ⟨s, by rw [hvl, hs], hsne⟩⟩
  intro kv hkv
  have := mem_of_any_key (hclosed kv hkv)
  simpa [paramSchema, Schema.props] using this


/-! ## acceptance -/

theorem step_named (s : Json) (h : valid schemaFuel stepSchema s = true) : namedStep s := by
  obtain ⟨n, hn, _⟩ := (C13_step_wellformed s h).name
  exact ⟨n, by simp [stepNameOf, hn]⟩

/-- the documented rules for a whole specification -/
structure WellFormed (doc : Json) : Prop where
  description : valid schemaFuel descriptionSchema ((doc.get? "description").getD (.obj [])) = true
  env : valid schemaFuel envSchema ((doc.get? "env").getD defaultEnv) = true
  steps : ∃ steps, doc.get? "study" = some (.arr steps) ∧ steps ≠ [] ∧
    (∀ s ∈ steps, WFStep s) ∧
    (steps.map nameStr).Nodup ∧
    (∀ s ∈ steps, ∀ ds, Json.str ds ∈ stepDepends s → stripCombos ds ≠ nameStr s) ∧
    (∀ pre post s, steps = pre ++ s :: post → ∀ d ∈ stepDepends s, ∃ ds, d = .str ds ∧
      (stripCombos ds ∈ pre.map nameStr ∨ stripCombos ds = sourceName)) ∧
    (∀ s ∈ steps, nameStr s ≠ sourceName)
  params : ∃ ps, (doc.get? "global.parameters").getD (.obj []) = .obj ps ∧
    (∀ p ∈ ps, valid schemaFuel paramSchema p.2 = true) ∧ ∃ n, ∀ p ∈ ps, valuesLen p.2 = n

/-- **Accept-soundness**: a specification that gets as far as a constructed
`Study` satisfies the documented rules — schema-valid description, environment,
steps and parameters (with the consequences proved above), at least one step,
pairwise distinct step names, none of them the reserved `_source`, no self-dependency, every
dependency naming a step defined before it, parameter value lists of one length.  Contrapositive:
**a document violating any of these is not accepted.** -/
theorem C13_accept_sound (doc : Json) (h : load schemas doc = .accepted) : WellFormed doc := by
  unfold load at h
  cases doc with
  | obj kvs =>
    simp only at h
    by_cases h1 : valid schemaFuel schemas.description (((Json.obj kvs).get? "description").getD (.obj [])) = true
    · by_cases h2 : valid schemaFuel schemas.env (((Json.obj kvs).get? "env").getD defaultEnv) = true
      · simp only [h1, h2, Bool.not_true, Bool.false_eq_true, ↓reduceIte] at h
        split at h
        · simp at h
        · simp at h
        · by_cases htruthy : (((Json.obj kvs).get? "study").getD (.arr [])).truthy = true
          · simp only [htruthy, Bool.not_true, Bool.false_eq_true, ↓reduceIte] at h
            cases hst : ((Json.obj kvs).get? "study").getD (.arr []) with
            | arr steps =>
              simp only [hst] at h
              split at h
              · simp at h
              · simp at h
              · rename_i hvs
                cases hgl : ((Json.obj kvs).get? "global.parameters").getD (.obj []) with
                | obj ps =>
                  simp only [hgl] at h
                  split at h
                  · simp at h
                  · simp at h
                  · rename_i hvp
                    split at h
                    · simp at h
                    · simp at h
                    · split at h
                      · simp at h
                      · split at h
                        · simp at h
                        · rename_i _ _ _ _ _ _
                          have hvs' := verifySteps_accepted schemas.step step_named steps [] (by simpa using hvs)
                          obtain ⟨v1, v2, v3, v4⟩ := hvs'
                          have hedges := edgesOutcome_accepted steps [] h
                          obtain ⟨p1, n, _, p2⟩ := verifyParams_accepted schemas.param ps none hvp
                          have hsome : (Json.obj kvs).get? "study" = some (.arr steps) := by
                            cases hg : (Json.obj kvs).get? "study" with
                            | none =>
                              exfalso
                              rw [hg] at htruthy
                              simp [Json.truthy] at htruthy
                            | some v => rw [hg] at hst; simpa using hst
                          refine ⟨h1, h2, ⟨steps, hsome, ?_, ?_, ?_, v3, ?_, v4⟩, ⟨ps, hgl, p1, n, p2⟩⟩
                          · intro h0
                            subst h0
                            rw [hst] at htruthy
                            simp [Json.truthy] at htruthy
                          · intro s hs
                            exact C13_step_wellformed s (v1 s hs)
                          · have : ([] ++ steps.map nameStr).Nodup = ([] : List Str).Nodup := v2
                            simpa using this
                          · intro pre post s hs d hd
                            obtain ⟨ds, hds, hmem⟩ := hedges pre post s hs d hd
                            exact ⟨ds, hds, by simpa using hmem⟩
                | _ => simp [hgl] at h
            | _ => simp [hst] at h
          · simp [htruthy] at h
      · simp [h1, h2] at h
    · simp [h1] at h
  | _ => simp at h


/-! ## internal errors -/

theorem stepDepends_strings (s : Json) (h : WFStep s) : ∀ d ∈ stepDepends s, ∃ ds, d = .str ds := by
  obtain ⟨rkvs, hrun, _, _, hdep⟩ := h.run
  intro d hd
  unfold stepDepends at hd
  rw [hrun] at hd
  simp only [Option.getD_some] at hd
  cases hg : (Json.obj rkvs).get? "depends" with
  | none => rw [hg] at hd; simp [arrItems] at hd
  | some dv =>
    obtain ⟨l, hl, hall⟩ := hdep dv hg
    rw [hg, hl] at hd
    simp only [Option.getD_some, arrItems] at hd
    exact hall d hd

/-- **An environment block the schema accepts lists only strings under `sources`** (since the
repair "fix: env.sources entries must be strings"; regenerated from the schema file). -/
theorem C13_env_sources_strings (env : Json) (h : valid schemaFuel envSchema env = true) :
    ∀ x ∈ arrItems ((env.get? "sources").getD (.arr [])), ∃ s, x = .str s := by
  have h' : valid (11 + 1) envSchema env = true := h
  obtain ⟨kvs, rfl⟩ := obj_of_tyOk (valid_type h' (by rfl))
  intro x hx
  cases hg : (Json.obj kvs).get? "sources" with
  | none => rw [hg] at hx; simp [arrItems] at hx
  | some v =>
    rw [hg] at hx
    simp only [Option.getD_some] at hx
    obtain ⟨ssch, itsch, hss, hsty, hsit, hitty⟩ :
        ∃ x it, envSchema.prop "sources" = some x ∧ x.ty = some .array ∧ x.items = some it ∧
          it.ty = some .string := ⟨_, _, rfl, rfl, rfl, rfl⟩
    have v_ok : valid (10 + 1) ssch v = true := valid_prop' h' hss v hg
    obtain ⟨l, hl⟩ := arr_of_tyOk (valid_type v_ok hsty)
    subst hl
    have x_ok : valid (9 + 1) itsch x = true := valid_items v_ok hsit x (by simpa [arrItems] using hx)
    exact str_of_tyOk (valid_type x_ok hitty)

theorem sourcesOutcome_ne_crash : ∀ (l : List Json), (∀ x ∈ l, ∃ s, x = .str s) → sourcesOutcome l ≠ .crash := by
  intro l
  induction l with
  | nil => intro _; simp [sourcesOutcome]
  | cons a as ih =>
    intro h
    obtain ⟨s, rfl⟩ := h a (List.mem_cons_self ..)
    simp only [sourcesOutcome]
    split
    · exact ih (fun x hx => h x (List.mem_cons_of_mem _ hx))
    · simp

/-- (auxiliary) the two candidate sources of an internal error in the model: the dependency
blocks, and a `sources` entry that is not a string -/
theorem C13_no_internal_error_aux (doc : Json) (h : load schemas doc = .crash) :
    verifyEnvNames ((doc.get? "env").getD defaultEnv) = .crash ∨
    sourcesOutcome (arrItems ((((doc.get? "env").getD defaultEnv).get? "sources").getD (.arr []))) = .crash := by
  unfold load at h
  cases doc with
  | obj kvs =>
    simp only at h
    split at h
    · simp at h
    · split at h
      · simp at h
      · split at h
        · simp at h
        · rename_i hc; exact Or.inl hc
        · split at h
          · simp at h
          · cases hst : ((Json.obj kvs).get? "study").getD (.arr []) with
            | arr steps =>
              simp only [hst] at h
              split at h
              · simp at h
              · rename_i hc; exact absurd hc (verifySteps_ne_crash _ _ _)
              · rename_i hvs
                cases hgl : ((Json.obj kvs).get? "global.parameters").getD (.obj []) with
                | obj ps =>
                  simp only [hgl] at h
                  split at h
                  · simp at h
                  · rename_i hc; exact absurd hc (verifyParams_ne_crash _ _ _)
                  · split at h
                    · simp at h
                    · rename_i hc; exact Or.inr hc
                    · split at h
                      · simp at h
                      · split at h
                        · simp at h
                        · exfalso
                          obtain ⟨s, hs, hc⟩ := edgesOutcome_crash steps [] h
                          have hacc := verifySteps_accepted schemas.step step_named steps []
                            (by simpa using hvs)
                          rcases hc with hc | ⟨d, hd, hnot⟩
                          · exact hacc.2.2.2 s hs hc
                          · have hv := hacc.1 s hs
                            obtain ⟨ds, hds⟩ := stepDepends_strings s (C13_step_wellformed s hv) d hd
                            exact hnot ds hds
                | _ => simp [hgl] at h
            | _ => simp [hst] at h
  | _ => simp at h

theorem load_crash_env_valid (doc : Json) (h : load schemas doc = .crash) :
    valid schemaFuel schemas.env ((doc.get? "env").getD defaultEnv) = true := by
  unfold load at h
  cases doc with
  | obj kvs =>
    simp only at h
    split at h
    · simp at h
    · split at h
      · simp at h
      · rename_i hv; simpa using hv
  | _ => simp at h

/-- **The only place an internal error could still come from**: the name loop of
`_verify_dependencies` (ruled out as well by `C13_no_internal_error` below).  Every other malformed
document is either rejected with a diagnostic or accepted.  (A non-string `sources` entry and a step that
took the reserved name `_source` used to be two more; both are refused since the repairs
"fix: env.sources entries must be strings" and "fix: reject the reserved step name '_source'".) -/
theorem C13_no_internal_error_partial (doc : Json) (h : load schemas doc = .crash) :
    verifyEnvNames ((doc.get? "env").getD defaultEnv) = .crash := by
  rcases C13_no_internal_error_aux doc h with k | k
  · exact k
  · exact absurd k (sourcesOutcome_ne_crash _ (C13_env_sources_strings _ (load_crash_env_valid doc h)))

/-! ### no internal error at all -/

/-- a dependency block whose entries are mappings with a string `name` -/
def NamedEntries (block : Json) : Prop :=
  ∃ l, block = .arr l ∧ ∀ it ∈ l, ∃ kvs n, it = .obj kvs ∧ (Json.obj kvs).get? "name" = some (.str n)

theorem depNames_of_named (block : Json) (h : NamedEntries block) :
    ∃ names, depNames block = some names ∧ ∀ nm ∈ names, ∃ n, nm = .str n := by
  obtain ⟨l, rfl, hl⟩ := h
  simp only [depNames]
  induction l with
  | nil => exact ⟨[], rfl, by simp⟩
  | cons it rest ih =>
    obtain ⟨kvs, n, rfl, hn⟩ := hl it (List.mem_cons_self ..)
    obtain ⟨names, hnames, hall⟩ := ih (fun x hx => hl x (List.mem_cons_of_mem _ hx))
    simp only [Json.get?, Option.map_eq_some_iff] at hn
    obtain ⟨kv, hkv, hkv2⟩ := hn
    refine ⟨.str n :: names, ?_, ?_⟩
    · rw [List.mapM_cons]
      simp only [hkv, Option.map_some, hkv2]
      rw [hnames]
      rfl
    · intro nm hnm
      rcases List.mem_cons.mp hnm with e | e
      · exact ⟨n, e⟩
      · exact hall nm e

/-- the inner loop over the names of one block never crashes on string names -/
theorem names_fold_ne_crash : ∀ (names : List Json) (a : Option (List Json) × Outcome),
    (∀ nm ∈ names, ∃ n, nm = .str n) → a.2 ≠ .crash →
    (names.foldl (fun (a : Option (List Json) × Outcome) nm =>
      match a with
      | (none, o) => (none, o)
      | (some s, _) =>
        if !hashable nm then (none, .crash)
        else if s.any (Json.beq nm) then (none, .rejected)
        else (some (s ++ [nm]), .accepted)) a).2 ≠ .crash := by
  intro names
  induction names with
  | nil => intro a _ h; exact h
  | cons nm rest ih =>
    intro a hall ha
    simp only [List.foldl_cons]
    apply ih _ (fun x hx => hall x (List.mem_cons_of_mem _ hx))
    obtain ⟨n, rfl⟩ := hall nm (List.mem_cons_self ..)
    obtain ⟨o, out⟩ := a
    cases o with
    | none => exact ha
    | some s =>
      simp only [hashable, Bool.not_true, Bool.false_eq_true, ↓reduceIte]
      split <;> simp

theorem block_named {f : Nat} {bsch it nsch : Schema} {block : Json}
    (h : valid (f + 1 + 1 + 1) bsch block = true) (hty : bsch.ty = some .array)
    (hit : bsch.items = some it) (hity : it.ty = some .object) (hreq : "name".toList ∈ it.required)
    (hn : it.prop "name" = some nsch) (hnty : nsch.ty = some .string) : NamedEntries block := by
  obtain ⟨l, rfl⟩ := arr_of_tyOk (valid_type h hty)
  refine ⟨l, rfl, ?_⟩
  intro x hx
  have x_ok : valid (f + 1 + 1) it x = true := valid_items h hit x hx
  obtain ⟨kvs, rfl⟩ := obj_of_tyOk (valid_type x_ok hity)
  obtain ⟨v, hv⟩ := has_of_required (k := "name") x_ok hreq
  have v_ok : valid (f + 1) nsch v = true := valid_prop' x_ok hn v hv
  obtain ⟨n, rfl⟩ := str_of_tyOk (valid_type v_ok hnty)
  exact ⟨kvs, n, rfl, hv⟩

/-- one dependency block of a schema-valid environment: absent, or named entries -/
theorem env_blocks_named (env : Json) (h : valid schemaFuel envSchema env = true) (deps : Json)
    (hd : env.get? "dependencies" = some deps) :
    (∀ b, deps.get? "paths" = some b → NamedEntries b) ∧ (∀ b, deps.get? "git" = some b → NamedEntries b) := by
  have h' : valid (10 + 1 + 1) envSchema env = true := h
  obtain ⟨kvs, rfl⟩ := obj_of_tyOk (valid_type h' (by rfl))
  obtain ⟨dsch, hds, hdty, ⟨psch, pit, pn, hp1, hp2, hp3, hp4, hp5, hp6, hp7⟩,
      ⟨gsch, git, gn, hg1, hg2, hg3, hg4, hg5, hg6, hg7⟩⟩ :
      ∃ x, envSchema.prop "dependencies" = some x ∧ x.ty = some .object ∧
        (∃ b it n, x.prop "paths" = some b ∧ b.ty = some .array ∧ b.items = some it ∧
          it.ty = some .object ∧ "name".toList ∈ it.required ∧ it.prop "name" = some n ∧
          n.ty = some .string) ∧
        (∃ b it n, x.prop "git" = some b ∧ b.ty = some .array ∧ b.items = some it ∧
          it.ty = some .object ∧ "name".toList ∈ it.required ∧ it.prop "name" = some n ∧
          n.ty = some .string) :=
    ⟨_, rfl, rfl, ⟨_, _, _, rfl, rfl, rfl, rfl, by decide, rfl, rfl⟩,
      ⟨_, _, _, rfl, rfl, rfl, rfl, by decide, rfl, rfl⟩⟩
  have d_ok : valid (9 + 1 + 1) dsch deps = true := valid_prop' h' hds deps hd
  obtain ⟨dkvs, rfl⟩ := obj_of_tyOk (valid_type d_ok hdty)
  constructor
  · intro b hb
    have b_ok : valid (7 + 1 + 1 + 1) psch b = true := valid_prop' d_ok hp1 b hb
    exact block_named b_ok hp2 hp3 hp4 hp5 hp6 hp7
  · intro b hb
    have b_ok : valid (7 + 1 + 1 + 1) gsch b = true := valid_prop' d_ok hg1 b hb
    exact block_named b_ok hg2 hg3 hg4 hg5 hg6 hg7

/-- one block of `_verify_dependencies` never crashes when the block (if present) has named entries -/
theorem block_step_ne_crash (deps : Json) (ty : String) (acc : Option (List Json) × Outcome)
    (hb : ∀ b, deps.get? ty = some b → NamedEntries b) (ha : acc.2 ≠ .crash) :
    (depBlockStep deps acc ty).2 ≠ .crash := by
  obtain ⟨o, out⟩ := acc
  unfold depBlockStep
  cases o with
  | none => exact ha
  | some seen =>
    simp only
    cases hg : deps.get? ty with
    | none => simp
    | some block =>
      obtain ⟨names, hn, hall⟩ := depNames_of_named block (hb block hg)
      simp only [hn]
      exact names_fold_ne_crash names _ hall (by simp)

/-- **`_verify_variables` + `_verify_dependencies` never fail internally on an environment block
the schema accepted** (since the repair "fix: _verify_dependencies no longer crashes on
schema-valid dependency blocks") -/
theorem verifyEnvNames_ne_crash (env : Json) (h : valid schemaFuel envSchema env = true) :
    verifyEnvNames env ≠ .crash := by
  unfold verifyEnvNames
  simp only
  split
  · simp
  · cases hd : env.get? "dependencies" with
    | none => simp
    | some deps =>
      obtain ⟨hp, hg⟩ := env_blocks_named env h deps hd
      simp only [List.foldl_cons, List.foldl_nil]
      exact block_step_ne_crash deps "git" _ hg (block_step_ne_crash deps "paths" _ hp (by simp))

/-- **A specification is never refused by an internal error**: whatever the document, loading it
(validation, environment, steps, parameters, study construction) ends in acceptance or in a
diagnosed rejection - at full strength since the three repairs of `_verify_steps`, the `sources`
schema and `_verify_dependencies` (before them: `C13_no_internal_error_partial` with three
exceptions, each a proved counterexample). -/
theorem C13_no_internal_error (doc : Json) : load schemas doc ≠ .crash := by
  intro h
  exact verifyEnvNames_ne_crash _ (load_crash_env_valid doc h) (C13_no_internal_error_partial doc h)

/-- **An accepted specification keeps every step, in order**: the study's step list is the
document's (no step can take the reserved name `_source` any more, which used to make a step
vanish). -/
theorem C13_accepted_steps (doc : Json) (h : load schemas doc = .accepted) :
    stepNames doc = (arrItems ((doc.get? "study").getD (.arr []))).map nameStr ∧ (stepNames doc).Nodup := by
  obtain ⟨steps, hs, _, _, hnodup, _, _, hres0⟩ := (C13_accept_sound doc h).steps
  have hres : ∀ s ∈ arrItems ((doc.get? "study").getD (.arr [])), nameStr s ≠ sourceName := by
    intro s hsm
    rw [hs] at hsm
    exact hres0 s (by simpa [arrItems] using hsm)
  have hfil : stepNames doc = (arrItems ((doc.get? "study").getD (.arr []))).map nameStr := by
    unfold stepNames
    apply List.filter_eq_self.mpr
    intro n hn
    obtain ⟨s, hsm, rfl⟩ := List.mem_map.mp hn
    have := hres s hsm
    simpa [nameStr] using this
  refine ⟨hfil, ?_⟩
  rw [hfil, hs]
  simpa [arrItems] using hnodup

/-! ## proved counterexamples of the unrestricted statement (known findings) -/

def baseSteps : Json :=
  .arr [.obj [("name".toList, .str "a".toList), ("description".toList, .str "d".toList),
              ("run".toList, .obj [("cmd".toList, .str "ls".toList)])]]

def baseDescription : Json := .obj [("name".toList, .str "s".toList), ("description".toList, .str "d".toList)]

/-- a schema-valid `spack` dependency block used to be an internal error; it is accepted now
(and, as before, ignored by `get_study_environment`) -/
theorem C13_spack_block_accepted :
    load schemas (.obj [("description".toList, baseDescription), ("study".toList, baseSteps),
      ("env".toList, .obj [("dependencies".toList, .obj [("spack".toList,
        .obj [("type".toList, .str "t".toList), ("package_name".toList, .str "p".toList)])])])]) = .accepted := by
  decide +kernel

/-- a non-string `sources` entry used to be an internal error; it is refused now -/
theorem C13_non_string_source_rejected :
    load schemas (.obj [("description".toList, baseDescription), ("study".toList, baseSteps),
      ("env".toList, .obj [("sources".toList, .arr [.int 5])])]) = .rejected := by
  decide +kernel

/-- a step named `_source` used to close a cycle (with a dependency) or vanish (without); both
documents are refused now -/
theorem C13_reserved_name_rejected :
    let step (deps : List Json) : Json :=
      .obj [("name".toList, .str "_source".toList), ("description".toList, .str "d".toList),
            ("run".toList, .obj [("cmd".toList, .str "ls".toList), ("depends".toList, .arr deps)])]
    let doc (deps : List Json) : Json :=
      .obj [("description".toList, baseDescription),
            ("study".toList, .arr (arrItems baseSteps ++ [step deps]))]
    load schemas (doc [.str "a".toList]) = .rejected ∧ load schemas (doc []) = .rejected := by
  decide +kernel

/-! ## non-vacuity: the repository's smallest kind of specification is accepted -/
example :
    load schemas (.obj [("description".toList, baseDescription), ("study".toList, baseSteps)]) = .accepted := by
  decide +kernel

example : load schemas (.obj [("study".toList, baseSteps)]) = .rejected ∧
    load schemas (.obj [("description".toList, baseDescription), ("study".toList, .arr [])]) = .rejected ∧
    load schemas .null = .rejected := by decide +kernel

end MaestroVerif.C13
