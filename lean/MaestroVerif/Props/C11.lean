import MaestroVerif.Model.Expand
import MaestroVerif.Lemmas.SortLemmas
import MaestroVerif.Lemmas.ExpandOrder
import MaestroVerif.Lemmas.ExpandStage

/-!
# C11 — Expanding the same specification is repeatable

Python `set`s (`depends`, `hub_depends`, `step_combos`, `used_params`, the
per-record parameter set) are iterated in hash order; the model abstracts every
such iteration.  What makes the expansion repeatable is that every *observable*
built from a set goes through `sorted(...)` or only adds to sets; these theorems prove that
this is enough: for names, workspaces and attached parameters, for the parent connections of
one instance, and (`C11_stage_order_independent`) for the whole of `stage`.  Real hash randomisation
is a runtime behaviour: the check stages every specification in several fresh
interpreters with different `PYTHONHASHSEED`s and output roots and compares the
root-neutral serialisations with each other and with the model.
-/
namespace MaestroVerif.C11
open MaestroVerif.Expand MaestroVerif.Subst

/-- **`sorted(set)` is canonical**: whatever order the set is iterated in (any
two lists with the same members), the sorted duplicate-free list is the same. -/
theorem C11_sorted_canonical (a b : List Str) (h : ∀ x, x ∈ a ↔ x ∈ b) :
    sortDedup a = sortDedup b :=
  sortDedup_canonical a b h

/-- **Instance names (hence workspaces and script names) do not depend on the
iteration order of the used-parameter set.** -/
theorem C11_names_order_independent (step : Str) (u₁ u₂ : List Str) (c : Combo)
    (h : ∀ x, x ∈ u₁ ↔ x ∈ u₂) : instName step u₁ c = instName step u₂ c := by
  have he : u₁.isEmpty = u₂.isEmpty := by
    cases u₁ with
    | nil =>
      cases u₂ with
      | nil => rfl
      | cons b bs => have := (h b).mpr (by simp); simp at this
    | cons a as =>
      cases u₂ with
      | nil => have := (h a).mp (by simp); simp at this
      | cons b bs => rfl
  simp only [instName, he, Combo.paramString, sortDedup_canonical u₁ u₂ h]

/-- the workspace of an instance likewise -/
theorem C11_workspace_order_independent (root step : Str) (u₁ u₂ : List Str) (c : Combo)
    (h : ∀ x, x ∈ u₁ ↔ x ∈ u₂) :
    makeSafePath root [step, c.paramString u₁] = makeSafePath root [step, c.paramString u₂] := by
  simp only [Combo.paramString, sortDedup_canonical u₁ u₂ h]

/-- **The parameters attached to a record (the Params column of the status
table) come in sorted order, independent of the set's iteration order** (the
repair "fix: attach parameter values to step records in sorted order"). -/
theorem C11_params_order_independent (u₁ u₂ : List Str) (c : Combo) (h : ∀ x, x ∈ u₁ ↔ x ∈ u₂) :
    c.paramValues u₁ = c.paramValues u₂ := by
  simp only [Combo.paramValues, sortDedup_canonical u₁ u₂ h]

/-- a permutation of the iteration order is a special case -/
theorem C11_perm (u₁ u₂ : List Str) (c : Combo) (step : Str) (h : u₁.Perm u₂) :
    instName step u₁ c = instName step u₂ c ∧ c.paramValues u₁ = c.paramValues u₂ :=
  ⟨C11_names_order_independent step u₁ u₂ c (fun x => h.mem_iff),
   C11_params_order_independent u₁ u₂ c (fun x => h.mem_iff)⟩

/-- **Dependency edges do not depend on the iteration order of the parent set.**  The parents of
an instance are connected one `add_connection` call at a time while a Python `set` is iterated;
whatever two orders `ord₁`, `ord₂` the set is iterated in (any two permutations of the same
parents), and from graphs that already agree up to the order inside the dependency sets, the
two results have the same instance list (submission / status order), the same adjacency table
(edges, in the same order), the same dependency-table keys and dependency sets with the same
members - or both runs fail with the same error. -/
theorem C11_connections_order_independent (ord₁ ord₂ : List Str → List Str) (g₁ g₂ : XG)
    (ps : List Str) (c : Str) (hrel : Rel g₁ g₂) (hperm : (ord₁ ps).Perm (ord₂ ps)) :
    RelE (addConnections ord₁ g₁ ps c) (addConnections ord₂ g₂ ps c) := by
  rw [addConnections_eq, addConnections_eq]
  exact connect_perm c hperm (a := .ok g₁) (b := .ok g₂) hrel

/-- the same, spelled out for successful runs -/
theorem C11_edges_order_independent (ord₁ ord₂ : List Str → List Str) (g : XG) (ps : List Str) (c : Str)
    (hperm : (ord₁ ps).Perm (ord₂ ps)) (r₁ r₂ : XG)
    (h₁ : addConnections ord₁ g ps c = .ok r₁) (h₂ : addConnections ord₂ g ps c = .ok r₂) :
    r₁.insts = r₂.insts ∧ r₁.adj = r₂.adj ∧
      ∀ k x, x ∈ getAssoc r₁.deps k ↔ x ∈ getAssoc r₂.deps k := by
  have := C11_connections_order_independent ord₁ ord₂ g g ps c (Rel.refl g) hperm
  rw [h₁, h₂] at this
  exact ⟨this.insts, this.adj, this.mem⟩

/-- one order fails exactly when the other does -/
theorem C11_failure_order_independent (ord₁ ord₂ : List Str → List Str) (g : XG) (ps : List Str) (c : Str)
    (hperm : (ord₁ ps).Perm (ord₂ ps)) (e : Err)
    (h₁ : addConnections ord₁ g ps c = .error e) : addConnections ord₂ g ps c = .error e := by
  have := C11_connections_order_independent ord₁ ord₂ g g ps c (Rel.refl g) hperm
  rw [h₁] at this
  cases h : addConnections ord₂ g ps c with
  | ok r => rw [h] at this; exact absurd this (by simp [RelE])
  | error f => rw [h] at this; simp only [RelE] at this; rw [this]

/-- **The whole expansion is repeatable whatever order Python iterates its sets in.**  Every
iteration over a `set` in `Study._stage` (`depends`, `hub_depends`, `step_combos`) is modelled as
iteration over `ord S` for an arbitrary oracle `ord` that returns a permutation of `S`
(`IsPermOracle`); for any two such oracles - two processes with different hash seeds - the
expansion gives the same instances in the same order (names, workspaces, expanded commands,
attached parameters, restart limits), the same adjacency table (edges, in order: hence the same
status listing and first-submission order), the same dependency-table keys and dependency sets
with the same members, or fails with the same error. -/
theorem C11_stage_order_independent (spec : Spec) {ord₁ ord₂ : List Str → List Str}
    (h₁ : IsPermOracle ord₁) (h₂ : IsPermOracle ord₂) : RelE (stage spec ord₁) (stage spec ord₂) :=
  stage_rel spec h₁ h₂

/-- spelled out for two successful expansions -/
theorem C11_observables (spec : Spec) {ord₁ ord₂ : List Str → List Str}
    (h₁ : IsPermOracle ord₁) (h₂ : IsPermOracle ord₂) (r₁ r₂ : XG)
    (e₁ : stage spec ord₁ = .ok r₁) (e₂ : stage spec ord₂ = .ok r₂) :
    r₁.insts = r₂.insts ∧ r₁.adj = r₂.adj ∧ r₁.deps.map (·.1) = r₂.deps.map (·.1) ∧
      ∀ k x, x ∈ getAssoc r₁.deps k ↔ x ∈ getAssoc r₂.deps k := by
  have := C11_stage_order_independent spec h₁ h₂
  rw [e₁, e₂] at this
  exact ⟨this.insts, this.adj, this.keys, this.mem⟩

/-- a specification refused under one iteration order is refused, with the same error, under every other -/
theorem C11_refusal_order_independent (spec : Spec) {ord₁ ord₂ : List Str → List Str}
    (h₁ : IsPermOracle ord₁) (h₂ : IsPermOracle ord₂) (e : Err) (e₁ : stage spec ord₁ = .error e) :
    stage spec ord₂ = .error e := by
  have := C11_stage_order_independent spec h₁ h₂
  rw [e₁] at this
  cases h : stage spec ord₂ with
  | ok r => rw [h] at this; exact absurd this (by simp [RelE])
  | error f => rw [h] at this; simp only [RelE] at this; rw [this]

/-- oracles exist: insertion order and its reverse -/
theorem C11_oracles : IsPermOracle id ∧ IsPermOracle List.reverse :=
  ⟨fun _ => List.Perm.refl _, fun l => List.reverse_perm l⟩

/-! non-vacuity: a parameterised study with a funnel (`post` depends on every `run` instance and on
`pre`) expands successfully under both oracles; the dependency set of `post` is filled in opposite
orders, everything observable is the same -/
def demoSpec : Spec :=
  { root := "/out".toList, hashWs := false, rlimit := 1,
    params := [{ key := "SIZE".toList, name := "SIZE".toList, tmpl := some "SIZE.%%".toList, labels := [],
                 values := ["10".toList, "20".toList] }],
    steps := [{ name := "pre".toList, cmd := "echo pre".toList, restart := [], depends := [],
                texts := ["echo pre".toList], extras := [] },
              { name := "run".toList, cmd := "echo $(SIZE)".toList, restart := [], depends := ["pre".toList],
                texts := ["echo $(SIZE)".toList], extras := [] },
              { name := "post".toList, cmd := "echo post".toList, restart := [],
                depends := ["run_*".toList, "pre".toList], texts := ["echo post".toList], extras := [] }],
    md5 := [] }

example : (match stage demoSpec id, stage demoSpec List.reverse with
    | .ok r₁, .ok r₂ =>
      r₁.insts.map (·.name) == ["pre".toList, "run_SIZE.10".toList, "run_SIZE.20".toList, "post".toList]
        && r₁.adj == r₂.adj
        && getAssoc r₁.deps "post".toList == ["pre".toList, "run_SIZE.10".toList, "run_SIZE.20".toList]
        && getAssoc r₂.deps "post".toList == ["pre".toList, "run_SIZE.20".toList, "run_SIZE.10".toList]
    | _, _ => false) = true := by decide +kernel

/-! non-vacuity: connecting `a` then `b`, or `b` then `a`, to `c` gives the same edges; the
dependency set of `c` is filled in a different order (the relation is not plain equality) -/
def demoG : XG :=
  { insts := [], adj := [("a".toList, []), ("b".toList, []), ("c".toList, [])],
    deps := [("a".toList, []), ("b".toList, []), ("c".toList, [])] }

example : (match addConnections id demoG ["a".toList, "b".toList] "c".toList,
      addConnections List.reverse demoG ["a".toList, "b".toList] "c".toList with
    | .ok r₁, .ok r₂ => r₁.adj == r₂.adj && r₁.adj == [("a".toList, ["c".toList]), ("b".toList, ["c".toList]), ("c".toList, [])]
        && getAssoc r₁.deps "c".toList == ["a".toList, "b".toList]
        && getAssoc r₂.deps "c".toList == ["b".toList, "a".toList]
    | _, _ => false) = true := by decide +kernel

/-! non-vacuity of the sorting theorems -/
example : sortDedup ["SIZE".toList, "ITER".toList, "SIZE".toList] = ["ITER".toList, "SIZE".toList] ∧
    sortDedup ["ITER".toList, "SIZE".toList] = ["ITER".toList, "SIZE".toList] := by decide

end MaestroVerif.C11
