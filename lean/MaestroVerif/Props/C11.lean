import MaestroVerif.Model.Expand
import MaestroVerif.Lemmas.SortLemmas

/-!
# C11 — Expanding the same specification is repeatable

Python `set`s (`depends`, `hub_depends`, `step_combos`, `used_params`, the
per-record parameter set) are iterated in hash order; the model abstracts every
such iteration.  What makes the expansion repeatable is that every *observable*
built from a set goes through `sorted(...)`; these theorems prove that this is
enough for names, workspaces and attached parameters.  Real hash randomisation
is a runtime behaviour: the check stages every specification in several fresh
interpreters with different `PYTHONHASHSEED`s and output roots and compares the
root-neutral serialisations with each other and with the model.
-/
namespace MaestroVerif.C11
open MaestroVerif.Expand MaestroVerif.Subst

/-- **`sorted(set)` is canonical**: whatever order the set is iterated in (any
two lists with the same members), the sorted duplicate-free list is the same. -/
theorem C11_sorted_canonical (a b : List Str) (h : ∀ x, x ∈ a ↔ x ∈ b) :
    sortDedup a = sortDedup b :=
  sortDedup_canonical a b h

/-- **Instance names (hence workspaces and script names) do not depend on the
iteration order of the used-parameter set.** -/
theorem C11_names_order_independent (step : Str) (u₁ u₂ : List Str) (c : Combo)
    (h : ∀ x, x ∈ u₁ ↔ x ∈ u₂) : instName step u₁ c = instName step u₂ c := by
  have he : u₁.isEmpty = u₂.isEmpty := by
    cases u₁ with
    | nil =>
      cases u₂ with
      | nil => rfl
      | cons b bs => have := (h b).mpr (by simp); simp at this
    | cons a as =>
      cases u₂ with
      | nil => have := (h a).mp (by simp); simp at this
      | cons b bs => rfl
  simp only [instName, he, Combo.paramString, sortDedup_canonical u₁ u₂ h]

/-- the workspace of an instance likewise -/
theorem C11_workspace_order_independent (root step : Str) (u₁ u₂ : List Str) (c : Combo)
    (h : ∀ x, x ∈ u₁ ↔ x ∈ u₂) :
    makeSafePath root [step, c.paramString u₁] = makeSafePath root [step, c.paramString u₂] := by
  simp only [Combo.paramString, sortDedup_canonical u₁ u₂ h]

/-- **The parameters attached to a record (the Params column of the status
table) come in sorted order, independent of the set's iteration order** (the
repair "fix: attach parameter values to step records in sorted order"). -/
theorem C11_params_order_independent (u₁ u₂ : List Str) (c : Combo) (h : ∀ x, x ∈ u₁ ↔ x ∈ u₂) :
    c.paramValues u₁ = c.paramValues u₂ := by
  simp only [Combo.paramValues, sortDedup_canonical u₁ u₂ h]

/-- a permutation of the iteration order is a special case -/
theorem C11_perm (u₁ u₂ : List Str) (c : Combo) (step : Str) (h : u₁.Perm u₂) :
    instName step u₁ c = instName step u₂ c ∧ c.paramValues u₁ = c.paramValues u₂ :=
  ⟨C11_names_order_independent step u₁ u₂ c (fun x => h.mem_iff),
   C11_params_order_independent u₁ u₂ c (fun x => h.mem_iff)⟩

/-! non-vacuity -/
example : sortDedup ["SIZE".toList, "ITER".toList, "SIZE".toList] = ["ITER".toList, "SIZE".toList] ∧
    sortDedup ["ITER".toList, "SIZE".toList] = ["ITER".toList, "SIZE".toList] := by decide

end MaestroVerif.C11
