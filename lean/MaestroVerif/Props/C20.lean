import MaestroVerif.Model.Exec

/-! # C20 — Scheduler query faults never corrupt step states (theorems are being added) -/
namespace MaestroVerif.C20
open MaestroVerif.Exec MaestroVerif.Gen

theorem C20_init_not_canceled (cfg : Cfg) : (init cfg).isCanceled = false := rfl

end MaestroVerif.C20
