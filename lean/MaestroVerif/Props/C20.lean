import MaestroVerif.Lemmas.ConductorLemmas
import MaestroVerif.Lemmas.ExecDemo
import MaestroVerif.Gen.ExecTables

/-!
# C20 — Scheduler query faults never corrupt step states
-/
namespace MaestroVerif.C20
open MaestroVerif.Exec MaestroVerif.Gen

/-- **If the status query fails the poll raises, having only performed the
query: no state changes, nothing is generated or submitted.** -/
theorem C20_error_aborts (cfg : Cfg) (g : G) (p : PollIn) (hd : cfg.dry = false)
    (hc : p.code = .ERROR) :
    poll cfg g p = ({ g with log := g.log ++ [Ev.check g.inProgress] }, .raised) :=
  poll_error cfg g p hd hc

/-- **A `None` answer is the same as no answer**: dropping every `None` entry
from the scheduler's answer changes nothing at all. -/
theorem C20_none_is_ignored (cfg : Cfg) (g : G) (p : PollIn) :
    poll cfg g { p with reports := p.reports.filter (fun r => r.2.isSome) } = poll cfg g p :=
  poll_ignores_none cfg g p

/-- Non-terminal answers other than RUNNING (PENDING, WAITING, QUEUED, FINISHING,
NOTFOUND, INCOMPLETE, INITIALIZED, DRYRUN) leave the step exactly as it was. -/
theorem C20_passive_is_ignored (cfg : Cfg) (g : G) (i : Nat) (s : State) (h : passive s = true) :
    report cfg g i (some s) = g :=
  report_passive cfg g i s h

/-- RUNNING only marks the step running -/
theorem C20_running (cfg : Cfg) (g : G) (i : Nat) :
    report cfg g i (some .RUNNING) = setStatus g i .RUNNING := by
  simp [report, terminal]

/-- **With a no-jobs code the answers are not applied at all**: the poll equals
the poll with an empty answer, whose report pass is the identity. -/
theorem C20_nojobs_ignores_reports (cfg : Cfg) (g : G) (p : PollIn) (hd : cfg.dry = false)
    (hc : p.code = .NOJOBS) :
    poll cfg g p = poll cfg g { code := .NOJOBS, reports := [] } := by
  simp [poll, hc, hd]

/-- a report concerns only its own step: every other tracked step stays tracked -/
theorem C20_others_stay_tracked (cfg : Cfg) (g : G) (i : Nat) (st : Option State) {a : Nat}
    (ha : a ≠ i) (hm : a ∈ g.inProgress) : a ∈ (report cfg g i st).inProgress :=
  report_inProgress_other cfg g i st ha hm

/-! non-vacuity: the demo history contains a `None` report and a NOJOBS poll -/
example : (run demoCfg (demoOps.take 4)).inProgress = [2, 3] ∧
    (run demoCfg (demoOps.take 3)).inProgress = [2, 3] := by decide +kernel


/-! ## tie to the source: the branch tables regenerated from `execute_ready_steps` -/

/-- **The answers the model ignores are exactly the answers the code has no
branch for**: `Gen.handledStates` is re-extracted from the `status == State.X`
chain of `execute_ready_steps` on every run; a new branch in the code (say for
PENDING) breaks this theorem. -/
theorem C20_ignored_iff_unhandled : ∀ s ∈ State.all, (passive s = true ↔ s ∉ handledStates) := by
  decide

/-- every handled answer changes something in a suitable state (no dead branch
in the table): the terminal ones and RUNNING -/
theorem C20_handled_are_active : ∀ s ∈ handledStates, terminal (some s) = true ∨ s = .RUNNING := by
  decide

/-- the query codes the code distinguishes are ERROR (abort) and OK (apply the
answers); every other code (NOJOBS) applies no answer — as in the model's `poll` -/
theorem C20_codes_distinguished : distinguishedCodes = [.ERROR, .OK] := by decide

/-- **a failed status query leaves the files alone too** (`Model/Conductor.lean`): when
`execute_ready_steps` raises, the loop neither pickles the graph nor writes the status table in
that iteration - the snapshot and `status.csv` keep the state of the last successful poll -/
theorem C20_error_leaves_files (cfg : Cfg) (s : Conductor.CS) (it : Conductor.Iter)
    (h : (Conductor.iter cfg s it).2 = .raised) :
    (Conductor.iter cfg s it).1.saved = s.saved ∧
    Conductor.CEv.pickle ∉ Conductor.iterTrace it.lock it.acquire (Conductor.iter cfg s it).2 ∧
    Conductor.CEv.writeStatus ∉ Conductor.iterTrace it.lock it.acquire (Conductor.iter cfg s it).2 :=
  Conductor.error_leaves_disk cfg s it h

end MaestroVerif.C20
