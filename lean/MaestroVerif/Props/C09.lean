import MaestroVerif.Model.Expand
import MaestroVerif.Lemmas.SubstLemmas

/-!
# C09 — Every defined token is substituted with the right value, and only those

`replaceAll` models `str.replace`, on which every stage of the pipeline is built
(`Variable.substitute`, `apply_environment`, `Combination.apply`, the workspace
tokens, `$(WORKSPACE)`); the whole pipeline is `Model/Expand.lean` and is compared
text by text with the real one.  Theorems: the laws of one replacement pass.
The statement "the three-stage pipeline equals one simultaneous substitution" is
evaluated by the tokenizer-based monitor on the real texts; its Lean form for
`$`-free literals is `C09_pass_is_simultaneous_partial` (see below when present).
-/
namespace MaestroVerif.C09
open MaestroVerif.Subst

/-- **Text that is not the token is left untouched**: if the token does not
occur, a replacement pass returns the text unchanged. -/
theorem C09_rest_untouched (s tokn v : Str) (h : occurs tokn s = false) :
    replaceAll s tokn v = s :=
  replaceAll_no_occurrence s tokn v h

/-- **An occurrence is replaced by the value and the scan continues behind it**:
literal text in which no occurrence starts, then the token, then the rest. -/
theorem C09_replaces_occurrence (lit tokn v rest : Str) (hne : tokn ≠ [])
    (hlit : ∀ pre post, lit ++ (tokn ++ rest) ≠ pre ++ tokn ++ post ∨ lit.length ≤ pre.length) :
    replaceAll (lit ++ tokn ++ rest) tokn v = lit ++ v ++ replaceAll rest tokn v := by
  have he : tokn.isEmpty = false := by simpa using hne
  simp only [replaceAll, he, Bool.false_eq_true, ↓reduceIte, List.append_assoc]
  rw [replaceGo_lit tokn v lit (tokn ++ rest) hlit, replaceGo_at tokn v rest hne]

/-- occurrence means exactly "is a substring" -/
theorem C09_occurs_iff (tokn s : Str) : occurs tokn s = true ↔ ∃ pre post, s = pre ++ tokn ++ post :=
  occurs_iff tokn s

/-- the token forms are injective in the name, and the three forms of one
parameter are different strings -/
theorem C09_token_forms (a b : Str) :
    (tok a = tok b ↔ a = b) ∧ tok a ≠ tokLabel a ∧ tok a ≠ tokName a ∧ tokLabel a ≠ tokName a := by
  refine ⟨?_, ?_, ?_, ?_⟩
  · simp [tok]
  · simp [tok, tokLabel]
  · simp [tok, tokName]
  · simp [tokLabel, tokName]

/-- the empty token is never substituted (`"".replace` is not reachable: every
token is `$(`…`)`) -/
theorem C09_tokens_nonempty (a : Str) : tok a ≠ [] ∧ tokLabel a ≠ [] ∧ tokName a ≠ [] ∧ tokWs a ≠ [] := by
  simp [tok, tokLabel, tokName, tokWs]

/-! non-vacuity: a look-alike of a defined token is kept, the token itself is replaced -/
example : replaceAll "echo $(PX) $(P) ${P} $(P.label)".toList (tok "P".toList) "7".toList =
    "echo $(PX) 7 ${P} $(P.label)".toList := by decide

end MaestroVerif.C09
