import MaestroVerif.Model.Expand
import MaestroVerif.Lemmas.SubstLemmas
import MaestroVerif.Lemmas.SubstTokens

/-!
# C09 — Every defined token is substituted with the right value, and only those

`replaceAll` models `str.replace`, on which every stage of the pipeline is built
(`Variable.substitute`, `apply_environment`, `Combination.apply`, the workspace
tokens, `$(WORKSPACE)`); the whole pipeline is `Model/Expand.lean` and is compared
text by text with the real one.  Theorems: the laws of one replacement pass.
The statement "a sequence of passes equals one simultaneous substitution" is
`C09_passes_simultaneous` for tokenised texts (`$`-free literals and values); on
the real texts, including the cases outside that domain, it is evaluated by the
tokenizer-based monitor.
-/
namespace MaestroVerif.C09
open MaestroVerif.Subst

/-- **Text that is not the token is left untouched**: if the token does not
occur, a replacement pass returns the text unchanged. -/
theorem C09_rest_untouched (s tokn v : Str) (h : occurs tokn s = false) :
    replaceAll s tokn v = s :=
  replaceAll_no_occurrence s tokn v h

/-- **An occurrence is replaced by the value and the scan continues behind it**:
literal text in which no occurrence starts, then the token, then the rest. -/
theorem C09_replaces_occurrence (lit tokn v rest : Str) (hne : tokn ≠ [])
    (hlit : ∀ pre post, lit ++ (tokn ++ rest) ≠ pre ++ tokn ++ post ∨ lit.length ≤ pre.length) :
    replaceAll (lit ++ tokn ++ rest) tokn v = lit ++ v ++ replaceAll rest tokn v := by
  have he : tokn.isEmpty = false := by simpa using hne
  simp only [replaceAll, he, Bool.false_eq_true, ↓reduceIte, List.append_assoc]
  rw [replaceGo_lit tokn v lit (tokn ++ rest) hlit, replaceGo_at tokn v rest hne]

/-- occurrence means exactly "is a substring" -/
theorem C09_occurs_iff (tokn s : Str) : occurs tokn s = true ↔ ∃ pre post, s = pre ++ tokn ++ post :=
  occurs_iff tokn s

/-- the token forms are injective in the name, and the three forms of one
parameter are different strings -/
theorem C09_token_forms (a b : Str) :
    (tok a = tok b ↔ a = b) ∧ tok a ≠ tokLabel a ∧ tok a ≠ tokName a ∧ tokLabel a ≠ tokName a := by
  refine ⟨?_, ?_, ?_, ?_⟩
  · simp [tok]
  · simp [tok, tokLabel]
  · simp [tok, tokName]
  · simp [tokLabel, tokName]

/-- the empty token is never substituted (`"".replace` is not reachable: every
token is `$(`…`)`) -/
theorem C09_tokens_nonempty (a : Str) : tok a ≠ [] ∧ tokLabel a ≠ [] ∧ tokName a ≠ [] ∧ tokWs a ≠ [] := by
  simp [tok, tokLabel, tokName, tokWs]

/-! non-vacuity: a look-alike of a defined token is kept, the token itself is replaced -/
example : replaceAll "echo $(PX) $(P) ${P} $(P.label)".toList (tok "P".toList) "7".toList =
    "echo $(PX) 7 ${P} $(P.label)".toList := by decide


/-! ## the pipeline on tokenised texts -/

/-- **A sequence of replacement passes is one simultaneous substitution.**  On a
text made of `$`-free literals and `$(NAME)` tokens (names without `$` and `)`),
running one `str.replace` pass per table entry — in any table order, for values
that contain no `$` — gives exactly the text in which every token whose name is
in the table is replaced by that name's value and every other token and every
literal is left as it was. -/
theorem C09_passes_simultaneous (t : Table) (segs : List Seg) (ht : TableOk t) (hc : Clean segs) :
    passes t (render segs) = render (segs.map (Seg.substAll t)) :=
  passes_simultaneous t segs ht hc

/-- **… hence no defined token survives and nothing else changes**: in the
result, a token is left only if its name is not in the table, and it is left
unchanged. -/
theorem C09_no_defined_token_survives (t : Table) (segs : List Seg) :
    ∀ s, s ∈ segs.map (Seg.substAll t) → ∀ n, s = .tk n → n ∉ t.map (·.1) := by
  intro s hs n hn
  obtain ⟨x, _, hx⟩ := List.mem_map.mp hs
  subst hn
  cases x with
  | lit l => simp [Seg.substAll] at hx
  | tk m =>
    simp only [Seg.substAll] at hx
    cases hf : t.find? (·.1 = m) with
    | some kv => simp [hf] at hx
    | none =>
      simp only [hf, Seg.tk.injEq] at hx
      subst hx
      intro hmem
      obtain ⟨kv, hkv, hk⟩ := List.mem_map.mp hmem
      have := List.find?_eq_none.mp hf kv hkv
      simp [hk] at this

/-- the premises are satisfiable, and the order of the passes does not matter -/
example :
    let segs := [Seg.lit "echo ".toList, .tk "P".toList, .lit " > ".toList, .tk "OUT".toList,
                 .lit "/x ".toList, .tk "PX".toList]
    passes [("P".toList, "7".toList), ("OUT".toList, "/w/run".toList)] (render segs) =
      "echo 7 > /w/run/x $(PX)".toList ∧
    passes [("OUT".toList, "/w/run".toList), ("P".toList, "7".toList)] (render segs) =
      "echo 7 > /w/run/x $(PX)".toList := by decide +kernel

end MaestroVerif.C09
