import MaestroVerif.Model.Env
import MaestroVerif.Lemmas.ExpandPlace
import MaestroVerif.Model.Expand
import MaestroVerif.Lemmas.SubstLemmas
import MaestroVerif.Lemmas.SubstTokens
import MaestroVerif.Lemmas.ExpandText

/-!
# C09 — Every defined token is substituted with the right value, and only those

`replaceAll` models `str.replace`, on which every stage of the pipeline is built
(`Variable.substitute`, `apply_environment`, `Combination.apply`, the workspace
tokens, `$(WORKSPACE)`); the whole pipeline is `Model/Expand.lean` and is compared
text by text with the real one.  Theorems: the laws of one replacement pass.
The statement "a sequence of passes equals one simultaneous substitution" is
`C09_passes_simultaneous` for tokenised texts (`$`-free literals and values); on
the real texts, including the cases outside that domain, it is evaluated by the
tokenizer-based monitor.
-/
namespace MaestroVerif.C09
open MaestroVerif.Subst MaestroVerif.Env

/-- **Text that is not the token is left untouched**: if the token does not
occur, a replacement pass returns the text unchanged. -/
theorem C09_rest_untouched (s tokn v : Str) (h : occurs tokn s = false) :
    replaceAll s tokn v = s :=
  replaceAll_no_occurrence s tokn v h

/-- **An occurrence is replaced by the value and the scan continues behind it**:
literal text in which no occurrence starts, then the token, then the rest. -/
theorem C09_replaces_occurrence (lit tokn v rest : Str) (hne : tokn ≠ [])
    (hlit : ∀ pre post, lit ++ (tokn ++ rest) ≠ pre ++ tokn ++ post ∨ lit.length ≤ pre.length) :
    replaceAll (lit ++ tokn ++ rest) tokn v = lit ++ v ++ replaceAll rest tokn v := by
  have he : tokn.isEmpty = false := by simpa using hne
  simp only [replaceAll, he, Bool.false_eq_true, ↓reduceIte, List.append_assoc]
  rw [replaceGo_lit tokn v lit (tokn ++ rest) hlit, replaceGo_at tokn v rest hne]

/-- occurrence means exactly "is a substring" -/
theorem C09_occurs_iff (tokn s : Str) : occurs tokn s = true ↔ ∃ pre post, s = pre ++ tokn ++ post :=
  occurs_iff tokn s

/-- the token forms are injective in the name, and the three forms of one
parameter are different strings -/
theorem C09_token_forms (a b : Str) :
    (tok a = tok b ↔ a = b) ∧ tok a ≠ tokLabel a ∧ tok a ≠ tokName a ∧ tokLabel a ≠ tokName a := by
  refine ⟨?_, ?_, ?_, ?_⟩
  · simp [tok]
  · simp [tok, tokLabel]
  · simp [tok, tokName]
  · simp [tokLabel, tokName]

/-- the empty token is never substituted (`"".replace` is not reachable: every
token is `$(`…`)`) -/
theorem C09_tokens_nonempty (a : Str) : tok a ≠ [] ∧ tokLabel a ≠ [] ∧ tokName a ≠ [] ∧ tokWs a ≠ [] := by
  simp [tok, tokLabel, tokName, tokWs]

/-! non-vacuity: a look-alike of a defined token is kept, the token itself is replaced -/
example : replaceAll "echo $(PX) $(P) ${P} $(P.label)".toList (tok "P".toList) "7".toList =
    "echo $(PX) 7 ${P} $(P.label)".toList := by decide


/-! ## the pipeline on tokenised texts -/

/-- **A sequence of replacement passes is one simultaneous substitution.**  On a
text made of `$`-free literals and `$(NAME)` tokens (names without `$` and `)`),
running one `str.replace` pass per table entry — in any table order, for values
that contain no `$` — gives exactly the text in which every token whose name is
in the table is replaced by that name's value and every other token and every
literal is left as it was. -/
theorem C09_passes_simultaneous (t : Table) (segs : List Seg) (ht : TableOk t) (hc : Clean segs) :
    passes t (render segs) = render (segs.map (Seg.substAll t)) :=
  passes_simultaneous t segs ht hc

/-- **… hence no defined token survives and nothing else changes**: in the
result, a token is left only if its name is not in the table, and it is left
unchanged. -/
theorem C09_no_defined_token_survives (t : Table) (segs : List Seg) :
    ∀ s, s ∈ segs.map (Seg.substAll t) → ∀ n, s = .tk n → n ∉ t.map (·.1) := by
  intro s hs n hn
  obtain ⟨x, _, hx⟩ := List.mem_map.mp hs
  subst hn
  cases x with
  | lit l => simp [Seg.substAll] at hx
  | tk m =>
    simp only [Seg.substAll] at hx
    cases hf : t.find? (·.1 = m) with
    | some kv => simp [hf] at hx
    | none =>
      simp only [hf, Seg.tk.injEq] at hx
      subst hx
      intro hmem
      obtain ⟨kv, hkv, hk⟩ := List.mem_map.mp hmem
      have := List.find?_eq_none.mp hf kv hkv
      simp [hk] at this

/-- the premises are satisfiable, and the order of the passes does not matter -/
example :
    let segs := [Seg.lit "echo ".toList, .tk "P".toList, .lit " > ".toList, .tk "OUT".toList,
                 .lit "/x ".toList, .tk "PX".toList]
    passes [("P".toList, "7".toList), ("OUT".toList, "/w/run".toList)] (render segs) =
      "echo 7 > /w/run/x $(PX)".toList ∧
    passes [("OUT".toList, "/w/run".toList), ("P".toList, "7".toList)] (render segs) =
      "echo 7 > /w/run/x $(PX)".toList := by decide +kernel

/-! ### workspace tokens -/
section Workspace
open MaestroVerif.Expand

/-- **`$(step.workspace)` tokens**: when the workspace pass succeeds every referenced workspace was
resolved, and the result is the text with one replacement pass per referenced step, each token
replaced by the value that step resolved to (for the command and the restart command alike) -/
theorem C09_workspace_tokens (resolve : Str → Except Err Str) : ∀ (ms : List Str) (cmd r cmd' r' : Str),
    substWs resolve ms (cmd, r) = .ok (cmd', r') →
    (∀ m, m ∈ ms → ∃ w, resolve m = .ok w) ∧
    ∀ v : Str → Str, (∀ m, m ∈ ms → resolve m = .ok (v m)) →
      cmd' = ms.foldl (fun t m => replaceAll t (tokWs m) (v m)) cmd ∧
      r' = ms.foldl (fun t m => replaceAll t (tokWs m) (v m)) r := by
  intro ms
  induction ms with
  | nil =>
    intro cmd r cmd' r' h
    simp only [substWs, Except.ok.injEq, Prod.mk.injEq] at h
    obtain ⟨rfl, rfl⟩ := h
    exact ⟨fun m hm => absurd hm List.not_mem_nil, fun v _ => ⟨rfl, rfl⟩⟩
  | cons m ms ih =>
    intro cmd r cmd' r' h
    simp only [substWs] at h
    cases hm : resolve m with
    | error e => simp [hm] at h
    | ok w =>
      simp only [hm] at h
      obtain ⟨a, b⟩ := ih _ _ _ _ h
      refine ⟨?_, ?_⟩
      · intro x hx
        rcases List.mem_cons.mp hx with e | e
        · subst e; exact ⟨w, hm⟩
        · exact a x e
      · intro v hv
        have hw : v m = w := by
          have := hv m (List.mem_cons_self ..)
          rw [hm] at this
          simpa using this.symm
        have := b v (fun x hx => hv x (List.mem_cons_of_mem _ hx))
        simp only [List.foldl_cons, hw]
        exact this

/-- **what a workspace token stands for**: a funnel parent's token resolves to that step's root
directory; an ordinary parent's to the recorded workspace of the parent's instance for the *same*
combination (the parent itself when it uses no parameter) -/
theorem C09_workspace_value (spec : Spec) (hubD : List Str) (workspaces : List (Str × Str))
    (usedTbl : List (Str × List Str)) (c : Combo) (m : Str) :
    (hubD.contains m = true →
      resolveRow spec hubD workspaces usedTbl c m = .ok (makeSafePath spec.root [m])) ∧
    (hubD.contains m = false →
      resolveRow spec hubD workspaces usedTbl c m = wsOf workspaces (instName m (getAssoc usedTbl m) c)) := by
  constructor
  · intro h; simp only [resolveRow, h, ↓reduceIte]
  · intro h
    simp only [resolveRow, h, Bool.false_eq_true, ↓reduceIte, instName]
    split <;> rfl

/-- an unparameterised step: a funnel parent's root directory, else the recorded workspace of the step named -/
theorem C09_workspace_value_flat (spec : Spec) (hubD : List Str) (workspaces : List (Str × Str)) (m : Str) :
    (hubD.contains m = true → resolveFlat spec hubD workspaces m = .ok (makeSafePath spec.root [m])) ∧
    (hubD.contains m = false → resolveFlat spec hubD workspaces m = wsOf workspaces m) := by
  constructor
  · intro h; simp only [resolveFlat, h, ↓reduceIte]
  · intro h; simp only [resolveFlat, h, Bool.false_eq_true, ↓reduceIte]

theorem wsOf_filter_append (l : List (Str × Str)) (k ws k' : Str) :
    wsOf (l.filter (fun e => e.1 != k) ++ [(k, ws)]) k' =
      if k' = k then .ok ws else wsOf l k' := by
  unfold wsOf
  rw [List.find?_append]
  by_cases hk : k' = k
  · subst hk
    have : (l.filter (fun e => e.1 != k')).find? (·.1 == k') = none := by
      apply List.find?_eq_none.mpr
      intro x hx
      simp only [List.mem_filter, bne_iff_ne, ne_eq] at hx
      simpa using hx.2
    simp [this]
  · simp only [hk, ↓reduceIte]
    have hf : (l.filter (fun e => e.1 != k)).find? (·.1 == k') = l.find? (·.1 == k') := by
      induction l with
      | nil => rfl
      | cons e es ih =>
        simp only [List.filter_cons]
        by_cases he : e.1 = k
        · have h1 : (e.1 != k) = false := by simp [he]
          have h2 : (e.1 == k') = false := by rw [he]; simpa using fun h => hk h.symm
          simp only [h1, Bool.false_eq_true, ↓reduceIte, List.find?_cons, h2, ih]
        · have h1 : (e.1 != k) = true := by simp [he]
          simp only [h1, ↓reduceIte, List.find?_cons, ih]
    rw [hf]
    cases l.find? (·.1 == k') with
    | some p => rfl
    | none =>
      have : (k == k') = false := by simpa using fun h => hk h.symm
      simp [List.find?_cons, this]

/-- **the workspace the tokens resolve to is the instance's own directory**: after the instance
for (step, row) is created the workspace table maps its name to
`<root>/<step>/<combination string or its hash>`, and every other entry is as before -/
theorem C09_workspace_recorded (spec : Spec) (ord : List Str → List Str) (st : Step) (used : List Str)
    (s s' : SS) (row : Nat) (h : stageRow spec ord st used s row = .ok s') :
    wsOf s'.workspaces (instName st.name used (combo spec.params row)) =
      .ok (makeSafePath spec.root [st.name,
        if spec.hashWs then lookup spec.md5 ((combo spec.params row).paramString used)
        else (combo spec.params row).paramString used]) ∧
    ∀ k, k ≠ instName st.name used (combo spec.params row) → wsOf s'.workspaces k = wsOf s.workspaces k := by
  unfold stageRow at h
  simp only at h
  split at h
  · simp only [Except.ok.injEq] at h
    subst h
    simp only
    exact ⟨by rw [wsOf_filter_append]; by_cases hh : spec.hashWs = true <;> simp [hh],
      fun k hk => by rw [wsOf_filter_append]; simp [hk]⟩
  · split at h
    · cases h
    · unfold place at h
      split at h
      · cases h
      · simp only [Except.ok.injEq] at h
        subst h
        simp only
        exact ⟨by rw [wsOf_filter_append]; by_cases hh : spec.hashWs = true <;> simp [hh],
          fun k hk => by rw [wsOf_filter_append]; simp [hk]⟩

end Workspace

/-! ## the environment: which definitions are labels, and the order of the passes -/

def Item.isVar : Item → Bool
  | .var .. => true
  | .dep .. => false

/-- **What `add` does with a variable**: it is a label exactly when its value is a string that
contains `$` and a substitution has been filed before; otherwise it is a substitution and from then
on `$` is registered - whether its value is a string or a number. -/
theorem C09_env_add_variable (e e' : Env) (n v : Str) (isStr : Bool)
    (h : e.add (.var n v isStr) = some e') :
    (isStr = true ∧ e.registered = true ∧ occurs dollar v = true →
        e'.labels = e.labels ++ [(n, v)] ∧ e'.subs = e.subs ∧ e'.registered = e.registered) ∧
    (¬(isStr = true ∧ e.registered = true ∧ occurs dollar v = true) →
        e'.labels = e.labels ∧ e'.subs = e.subs ++ [(n, v)] ∧ e'.registered = true) := by
  simp only [Env.add, Env.addVar] at h
  split at h
  · cases h
  · split at h
    · rename_i hc
      simp only [Option.some.injEq] at h
      subst h
      simp only [Bool.and_eq_true] at hc
      exact ⟨fun _ => ⟨rfl, rfl, rfl⟩, fun hn => absurd ⟨hc.1.1, hc.1.2, hc.2⟩ hn⟩
    · rename_i hc
      simp only [Option.some.injEq] at h
      subst h
      simp only [Bool.and_eq_true, not_and] at hc
      refine ⟨fun hy => absurd hy.2.2 (by simpa using hc ⟨hy.1, hy.2.1⟩), fun _ => ⟨rfl, rfl, rfl⟩⟩

theorem add_registered (e e' : Env) (it : Item) (h : e.add it = some e') :
    e'.registered = (e.registered || (Item.isVar it && !e.registered)) ∨
    e'.registered = (e.registered || Item.isVar it) := by
  right
  cases it with
  | dep n p =>
    simp only [Env.add, Env.addDep] at h
    split at h
    · cases h
    · simp only [Option.some.injEq] at h; subst h; simp [Item.isVar]
  | var n v isStr =>
    simp only [Env.add, Env.addVar] at h
    split at h
    · cases h
    · split at h
      · rename_i hc
        simp only [Option.some.injEq] at h; subst h
        simp only [Bool.and_eq_true] at hc
        simp [Item.isVar, hc.1.2]
      · simp only [Option.some.injEq] at h; subst h; simp [Item.isVar]

/-- **`$` is registered exactly when some variable - of any type - has been added**: the first
variable is never a label (nothing is registered yet) and registers `$`. -/
theorem C09_env_registered (items : List Item) (e : Env) (h : addAll items = some e) :
    e.registered = items.any Item.isVar := by
  unfold addAll at h
  suffices H : ∀ (items : List Item) (a e : Env),
      items.foldl (fun acc it => acc.bind (·.add it)) (some a) = some e →
      e.registered = (a.registered || items.any Item.isVar) by
    simpa [empty] using H items empty e h
  intro items
  induction items with
  | nil => intro a e h; simp at h; subst h; simp
  | cons it items ih =>
    intro a e h
    simp only [List.foldl_cons, Option.bind_some] at h
    cases ha : a.add it with
    | none =>
      rw [ha] at h
      have : ∀ l : List Item, l.foldl (fun acc it => acc.bind (·.add it)) (none : Option Env) = none := by
        intro l; induction l with
        | nil => rfl
        | cons x xs ihx => simpa using ihx
      rw [this] at h; cases h
    | some a' =>
      rw [ha] at h
      rw [ih a' e h]
      rcases add_registered a a' it ha with e1 | e1 <;> rw [e1] <;> simp [Bool.or_assoc] <;>
        cases a.registered <;> cases Item.isVar it <;> simp

/-- **Hence: in an environment built from a list of definitions, a string containing `$` is a label
if and only if a variable was defined before it.**  (A `$`-string that comes first is a
substitution: its own tokens are then resolved only if the entries they name come later.) -/
theorem C09_env_label_iff (before : List Item) (e e' : Env) (n v : Str)
    (hb : addAll before = some e) (h : e.add (.var n v true) = some e') (hv : occurs dollar v = true) :
    ((n, v) ∈ e'.labels ∧ e'.subs = e.subs) ↔ before.any Item.isVar = true := by
  have hr := C09_env_registered before e hb
  have ha := C09_env_add_variable e e' n v true h
  constructor
  · intro ⟨_, hs⟩
    cases hany : before.any Item.isVar with
    | true => rfl
    | false =>
      exfalso
      have hreg : e.registered = false := by rw [hr]; exact hany
      have := (ha.2 (by simp [hreg])).2.1
      rw [hs] at this
      have hl := congrArg List.length this
      simp at hl
  · intro hy
    have hreg : e.registered = true := by rw [hr]; exact hy
    have := ha.1 ⟨rfl, hreg, hv⟩
    exact ⟨by rw [this.1]; simp, this.2.1⟩

/-- **The order of the passes**: labels first, then dependencies, then substitutions - each one
`str.replace` pass per entry in the order of definition.  (With `C09_passes_simultaneous` for the
passes of each group.) -/
theorem C09_env_order (e : Env) (item : Str) (h : item ≠ []) :
    e.apply item = pass e.subs (pass e.deps (pass e.labels item)) := by
  unfold Env.apply
  have : item.isEmpty = false := by simpa using h
  simp [this]

/-- **A label is resolved through**: where a text is just the label's token, the result is the
label's own text with the dependencies and substitutions applied to it - the tokens a label brings
in are replaced by the later passes. -/
theorem C09_env_label_resolved (e : Env) (l lv : Str) (h : e.labels = [(l, lv)]) :
    e.apply (tok l) = pass e.subs (pass e.deps lv) := by
  rw [C09_env_order e (tok l) (by simp [tok]), h]
  have := C09_replaces_occurrence [] (tok l) lv [] (by simp [tok]) (by intro pre post; right; simp)
  simp only [List.nil_append, List.append_nil] at this
  simp only [pass, List.foldl_cons, List.foldl_nil]
  rw [this]
  simp [replaceAll, replaceGo, tok]

/-! non-vacuity: `N: 7` (a number) then `LBL: pre-$(N)-post` - the label is resolved; the same two
definitions in the other order leave the label a substitution that is applied first, and `$(N)` is
still resolved because `N` comes later; a `$`-string in front of everything is a substitution -/
example : (match addAll [.var "N".toList "7".toList false, .var "LBL".toList "pre-$(N)-post".toList true] with
    | some e => e.labels == [("LBL".toList, "pre-$(N)-post".toList)] && e.subs == [("N".toList, "7".toList)]
        && e.apply "echo $(LBL)".toList == "echo pre-7-post".toList
    | none => false) = true := by decide +kernel
example : (match addAll [.var "LBL".toList "pre-$(N)-post".toList true, .var "N".toList "7".toList false] with
    | some e => e.labels == [] && e.subs == [("LBL".toList, "pre-$(N)-post".toList), ("N".toList, "7".toList)]
        && e.apply "echo $(LBL)".toList == "echo pre-7-post".toList
    | none => false) = true := by decide +kernel
example : addAll [.var "A".toList "1".toList false, .dep "A".toList "/p".toList] = none := by decide +kernel

/-! ### an observation outside the property's stated domain (DESIGN, Correction 18)

No variable at all, a label below a path dependency, then what `maestro run` adds itself: the label
is filed as a substitution, the dependencies are applied before it, and `$(DEPDIR)` stays. -/
theorem C09_observation_label_first :
    (match addAll [.var "TOOL".toList "$(DEPDIR)/bin/tool".toList true, .dep "DEPDIR".toList "/tmp".toList,
                   .var "OUTPUT_PATH".toList "/out".toList true] with
     | some e => e.labels == [] && e.apply "$(TOOL) --version".toList == "$(DEPDIR)/bin/tool --version".toList
     | none => false) = true ∧
    (match addAll [.var "N".toList "3".toList false, .var "TOOL".toList "$(DEPDIR)/bin/tool".toList true,
                   .dep "DEPDIR".toList "/tmp".toList] with
     | some e => e.apply "$(TOOL) --version".toList == "/tmp/bin/tool --version".toList
     | none => false) = true := by decide +kernel

section pipeline
open MaestroVerif.Expand MaestroVerif.Subst

/-- **the script text of an instance is one simultaneous substitution into the step's text**
(the pipeline-level equation).  For the instance the expansion places for a row of the table:
its `cmd` and `restart` are the step's `cmd` and `restart` after the passes of `rowTable` -
`Combination.apply` (labels, values, names of every parameter for this row), one pass per
referenced workspace in the order `re.findall` returned them, `$(WORKSPACE)` last - for every
specification, staging state and iteration oracle (`stageRow_text`); and whenever the step's text
is a sequence of `$`-free literals and `$(NAME)` tokens and the table's names and values are
`$`-free (`TableOk`: no value re-introduces a token), that is exactly the text in which every token
whose name is in the table is replaced by the value found first and every other token and literal
is left as it was (`C09_passes_simultaneous`). -/
theorem C09_instance_text_simultaneous (spec : Spec) {ord : List Str → List Str} (ho : IsPermOracle ord)
    (st : Step) (used : List Str) (s s' : SS) (row : Nat)
    (hnew : s.combos.any (·.1 == instName st.name used (combo spec.params row)) = false)
    (h : stageRow spec ord st used s row = .ok s') :
    ∃ (t : Table) (inst : Inst),
      t.map (·.1) = (refsOf st).map (· ++ ".workspace".toList) ∧
      inst.name = instName st.name used (combo spec.params row) ∧
      (s'.g.insts = if s.g.hasNode inst.name then s.g.insts else s.g.insts ++ [inst]) ∧
      inst.cmd = passes (rowTable (combo spec.params row) t inst.ws) st.cmd ∧
      inst.restart = passes (rowTable (combo spec.params row) t inst.ws) st.restart ∧
      (TableOk (rowTable (combo spec.params row) t inst.ws) →
        (∀ segs, Clean segs → st.cmd = render segs →
          inst.cmd = render (segs.map (Seg.substAll (rowTable (combo spec.params row) t inst.ws)))) ∧
        (∀ segs, Clean segs → st.restart = render segs →
          inst.restart = render (segs.map (Seg.substAll (rowTable (combo spec.params row) t inst.ws))))) := by
  obtain ⟨t, inst, h1, h2, h3, h4, h5⟩ := stageRow_text spec ho st used s s' row hnew h
  refine ⟨t, inst, h1, h2, h5, h3, h4, fun hok => ⟨?_, ?_⟩⟩
  · intro segs hc he
    rw [h3, he]; exact passes_simultaneous _ segs hok hc
  · intro segs hc he
    rw [h4, he]; exact passes_simultaneous _ segs hok hc

/-- the same for the single instance of a step that uses no parameter: one pass per referenced
workspace, then `$(WORKSPACE)`; no parameter pass at all -/
theorem C09_unparameterised_text (spec : Spec) {ord : List Str → List Str} (ho : IsPermOracle ord)
    (st : Step) (s s' : SS) (hu : usedOf spec s.used st = .ok [])
    (h : stageStep spec ord s st = .ok s') :
    ∃ (t : Table) (inst : Inst),
      t.map (·.1) = (refsOf st).map (· ++ ".workspace".toList) ∧
      inst.name = st.name ∧ inst.ws = makeSafePath spec.root [st.name] ∧
      inst.cmd = passes (t ++ [("WORKSPACE".toList, inst.ws)]) st.cmd ∧
      inst.restart = passes (t ++ [("WORKSPACE".toList, inst.ws)]) st.restart ∧
      s'.g.insts = if s.g.hasNode inst.name then s.g.insts else s.g.insts ++ [inst] :=
  stageFlat_text spec ho st s s' hu h

def demoSize : Param :=
  { key := "SIZE".toList, name := "SIZE".toList, tmpl := some "SIZE.%%".toList, labels := [],
    values := ["10".toList, "20".toList] }

/-! non-vacuity: `echo $(SIZE) $(SIZE.label) $(pre.workspace) > $(WORKSPACE)/out` for the second row -/
example :
    passes (rowTable (combo [demoSize] 1) [("pre.workspace".toList, "/out/pre".toList)] "/out/run/SIZE.20".toList)
      "echo $(SIZE) $(SIZE.label) $(pre.workspace) > $(WORKSPACE)/out".toList =
    "echo 20 SIZE.20 /out/pre > /out/run/SIZE.20/out".toList := by decide +kernel

end pipeline

end MaestroVerif.C09
