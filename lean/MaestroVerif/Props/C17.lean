import MaestroVerif.Model.Exec

/-! # C17 — A dry run generates everything and executes nothing (theorems are being added) -/
namespace MaestroVerif.C17
open MaestroVerif.Exec MaestroVerif.Gen

theorem C17_init_not_canceled (cfg : Cfg) : (init cfg).isCanceled = false := rfl

end MaestroVerif.C17
