import MaestroVerif.Lemmas.ExecDemo

/-!
# C17 — A dry run generates everything and executes nothing
-/
namespace MaestroVerif.C17
open MaestroVerif.Exec MaestroVerif.Gen

/-- **In a dry run a poll only generates scripts**: the events it appends are
`gen` events — no status query, no submission, no local run, no cancellation. -/
theorem C17_no_side_effects (cfg : Cfg) (hd : cfg.dry = true) (g : G) (p : PollIn) :
    ∃ evs, (poll cfg g p).1.log = g.log ++ evs ∧ ∀ e, e ∈ evs → IsGen e :=
  poll_log_dry cfg hd g p

/-- nothing is ever tracked as in flight and no job is ever live -/
theorem C17_nothing_in_flight {cfg : Cfg} (wf : WFCfg' cfg) (hd : cfg.dry = true) {g : G}
    (h : Reachable cfg g) : g.inProgress = [] ∧ g.live = [] := by
  have A := invAll_reachable wf h
  have hip := A.toInv.dryIdle hd
  refine ⟨hip, ?_⟩
  cases hl : g.live with
  | nil => rfl
  | cons x xs =>
    have : x ∈ g.inProgress := (A.b.liveEq x).mp (by rw [hl]; simp)
    rw [hip] at this; simp at this

/-- the script of a launched step is generated exactly as in a real run: the
`gen` event is emitted by the same code (`execPrep`) before the dry-run test -/
theorem C17_same_generation (cfg : Cfg) (g : G) (i : Nat) :
    (execPrep cfg g i false).log = g.log ++ [Ev.gen i] := by
  simp [execPrep, emit]

/-- a launched step is reported DRYRUN and counts as complete -/
theorem C17_launch_marks_dryrun (cfg : Cfg) (hd : cfg.dry = true) (g : G) (i : Nat) :
    (executeRecord cfg g i false).status i = .DRYRUN ∧ i ∈ (executeRecord cfg g i false).completed := by
  simp [executeRecord, hd, dryMark, setStatus]

/-- every step a dry run ever touched is in state DRYRUN (or still INITIALIZED) -/
theorem C17_states {cfg : Cfg} (wf : WFCfg' cfg) (hd : cfg.dry = true) {g : G}
    (h : Reachable cfg g) (i : Nat) (hi : i ∈ g.completed) (h0 : i ≠ 0) :
    g.status i = .FINISHED ∨ g.status i = .DRYRUN :=
  (invAll_reachable wf h).toInv.toInvA.cmpS i hi h0

/-! non-vacuity: the demo DAG as a dry run is complete after three polls -/
def dryCfg : Cfg := { demoCfg with dry := true }

example : (run dryCfg [.poll ⟨.OK, []⟩, .poll ⟨.OK, []⟩, .poll ⟨.OK, []⟩]).completed = [0, 1, 2, 3, 4] ∧
    verdict dryCfg (run dryCfg [.poll ⟨.OK, []⟩, .poll ⟨.OK, []⟩, .poll ⟨.OK, []⟩]) = .FINISHED ∧
    (run dryCfg [.poll ⟨.OK, []⟩, .poll ⟨.OK, []⟩, .poll ⟨.OK, []⟩]).log =
      [.gen 1, .gen 2, .gen 3, .gen 4] := by decide +kernel

end MaestroVerif.C17
