import MaestroVerif.Model.Exec

/-! # C02 — Failure and cancellation stop exactly the dependent sub-graph (theorems are being added) -/
namespace MaestroVerif.C02
open MaestroVerif.Exec MaestroVerif.Gen

theorem C02_init_not_canceled (cfg : Cfg) : (init cfg).isCanceled = false := rfl

end MaestroVerif.C02
