import MaestroVerif.Lemmas.ExecDemo
import MaestroVerif.Lemmas.ExecBlame
import MaestroVerif.Props.C05

/-!
# C02 — Failure and cancellation stop exactly the dependent sub-graph

Scope (DESIGN.md §6 C02): the closure half is stated for histories without a
*study-wide* cancel request (`isCanceled = false`); after such a request nothing
at all is submitted (C07) and dependents of the steps cancelled by the launch
loop legitimately stay INITIALIZED.  A job reported CANCELLED *by the scheduler*
is inside this property.  "Exactly": `C02_no_collateral` (one poll),
`C02_no_collateral_history` (whole histories) and `C02_unrelated_complete` show that
nothing outside the sub-trees of the steps that really ended badly is ever stopped, and
that at a final verdict every other step has completed; that a final verdict is reached
is the liveness theorem of C05.
-/
namespace MaestroVerif.C02
open MaestroVerif.Exec MaestroVerif.Gen Relation

/-- **Descendant closure**: every child of a failed or cancelled step is failed
or cancelled. -/
theorem C02_closed {cfg : Cfg} (wf : WFCfg' cfg) {g : G} (h : Reachable cfg g)
    (hc : g.isCanceled = false) {i c : Nat} (hi : i ∈ g.failed ∨ i ∈ g.cancelled)
    (hcc : c ∈ cfg.dag.adj i) : c ∈ g.failed ∨ c ∈ g.cancelled :=
  closed_reachable wf h hc i c hi hcc

/-- … hence every *transitive* dependent. -/
theorem C02_descendants_closed {cfg : Cfg} (wf : WFCfg' cfg) {g : G} (h : Reachable cfg g)
    (hc : g.isCanceled = false) {i d : Nat} (hi : i ∈ g.failed ∨ i ∈ g.cancelled)
    (hd : Dag.Reach cfg.dag i d) : d ∈ g.failed ∨ d ∈ g.cancelled := by
  induction hd with
  | refl => exact hi
  | tail _ e ih => exact closed_reachable wf h hc _ _ ih e

/-- A failed / cancelled step (hence, by the closure, every dependent of an
unsuccessful step) is never queued, never tracked, never complete, never
launched (`freshOk`: no launch ever concerned a resolved step), and is not
reported INITIALIZED. -/
theorem C02_no_dependent_runs {cfg : Cfg} (wf : WFCfg' cfg) {g : G} (h : Reachable cfg g)
    {d : Nat} (hd : d ∈ g.failed ∨ d ∈ g.cancelled) :
    d ∉ g.ready ∧ d ∉ g.inProgress ∧ d ∉ g.completed ∧ g.status d ≠ .INITIALIZED ∧
      g.freshOk = true := by
  have A := invAll_reachable wf h
  have a := A.toInv.toInvA
  refine ⟨fun hr => ?_, fun hp => ?_, fun hc => ?_, a.badS d hd, A.b.freshOk⟩
  · have := a.rD d hr; rcases hd with hd | hd
    · exact this.1 hd
    · exact this.2 hd
  · have := a.ipD d hp; rcases hd with hd | hd
    · exact this.2.1 hd
    · exact this.2.2.1 hd
  · have := a.cD d hc; rcases hd with hd | hd
    · exact this.1 hd
    · exact this.2.1 hd

/-- failure is permanent -/
theorem C02_stays_failed (cfg : Cfg) (g : G) (p : PollIn) (x : Nat)
    (hx : x ∈ g.failed ∨ x ∈ g.cancelled) :
    x ∈ (poll cfg g p).1.failed ∨ x ∈ (poll cfg g p).1.cancelled := by
  rcases hx with hx | hx
  · exact Or.inl ((poll_completed cfg g p).1.failed x hx)
  · exact Or.inr ((poll_completed cfg g p).1.cancelled x hx)

/-- A bad report for a tracked step puts its whole sub-tree into the sweep
queues of that poll (FAILED, UNKNOWN → failed; CANCELLED → cancelled). -/
theorem C02_bad_report_queues_subtree {cfg : Cfg} (wf : WFCfg cfg) (g : G) (i : Nat) :
    (∀ x, x ∈ subtree cfg i → x ∈ (report cfg g i (some .FAILED)).cleanup) ∧
    (∀ x, x ∈ subtree cfg i → x ∈ (report cfg g i (some .UNKNOWN)).cleanup) ∧
    (∀ x, x ∈ subtree cfg i → x ∈ (report cfg g i (some .CANCELLED)).cancelQ) ∧
    (∀ x, x ∈ subtree cfg i ↔ Dag.Reach cfg.dag i x) := by
  refine ⟨?_, ?_, ?_, fun x => mem_subtree wf⟩ <;>
    (intro x hx; simp [report, terminal, setStatus, hx])

/-! non-vacuity: in the demo history step 2 failed and its dependent 4 was swept -/
example : (run demoCfg (demoOps.take 5)).isCanceled = false ∧
    (run demoCfg (demoOps.take 5)).failed = [2, 4] := by decide +kernel

/-! ### exactly the dependent sub-graph: nothing else is stopped -/

/-- **One poll stops no step outside the sub-trees of the steps that ended badly in it.**
Without a cancel request, a step that is failed or cancelled after a poll was so before,
or is reachable (along dependency edges, possibly in zero steps) from a step `r` whose job
the scheduler reported FAILED / UNKNOWN / CANCELLED / TIMEDOUT in this poll, or whose
submission attempts (`cfg.attempts` consecutive submissions, all for `r`) were all refused. -/
theorem C02_no_collateral {cfg : Cfg} (wf : WFCfg cfg) (g : G) (p : PollIn)
    (hc : g.isCanceled = false) (h1 : g.cleanup = []) (h2 : g.cancelQ = []) (x : Nat)
    (hx : x ∈ (poll cfg g p).1.failed ∨ x ∈ (poll cfg g p).1.cancelled) :
    x ∈ g.failed ∨ x ∈ g.cancelled ∨
      ∃ r, (BadRep p r ∨ Exhausted cfg (poll cfg g p).1.log r) ∧ Dag.Reach cfg.dag r x := by
  have fr := fr_poll wf g p hc
  have : Stopped (poll cfg g p).1 x := by
    rcases hx with h | h
    · exact Or.inl h
    · exact Or.inr (Or.inl h)
  rcases fr.stop x this with h | ⟨r, hr, hs⟩
  · simp only [Stopped, h1, h2, List.not_mem_nil, or_false] at h
    rcases h with h | h
    · exact Or.inl h
    · exact Or.inr (Or.inl h)
  · exact Or.inr (Or.inr ⟨r, hr, (mem_subtree wf).mp hs⟩)

/-- histories without a cancel request, with the polls' scheduler answers -/
inductive ReachNC (cfg : Cfg) : List PollIn → G → Prop
  | init : ReachNC cfg [] (init cfg)
  | poll {ps : List PollIn} {g : G} (p : PollIn) :
      ReachNC cfg ps g → WFPoll g p → ReachNC cfg (ps ++ [p]) (poll cfg g p).1

theorem ReachNC.reachable {cfg : Cfg} {ps : List PollIn} {g : G} (h : ReachNC cfg ps g) :
    Reachable cfg g := by
  induction h with
  | init => exact Reachable.init
  | poll p _ hp ih => exact Reachable.poll p ih hp

theorem ReachNC.notCanceled {cfg : Cfg} {ps : List PollIn} {g : G} (h : ReachNC cfg ps g) :
    g.isCanceled = false := by
  induction h with
  | init => rfl
  | poll p _ _ ih => rw [poll_isCanceled]; exact ih

/-- **Over a whole history: every stopped step has an ancestor (or is itself a step) that
really ended badly.**  After any sequence of polls without a cancel request, a failed or
cancelled step is reachable from a step that some poll's scheduler answer reported
FAILED / UNKNOWN / CANCELLED / TIMEDOUT, or whose submission attempts were exhausted. -/
theorem C02_no_collateral_history {cfg : Cfg} (wf : WFCfg' cfg) {ps : List PollIn} {g : G}
    (h : ReachNC cfg ps g) (x : Nat) (hx : x ∈ g.failed ∨ x ∈ g.cancelled) :
    ∃ r, Dag.Reach cfg.dag r x ∧ (Exhausted cfg g.log r ∨ ∃ p, p ∈ ps ∧ BadRep p r) := by
  induction h with
  | init => simp [init] at hx
  | @poll ps g p hr hp ih =>
    have inv := Inv_reachable wf hr.reachable
    have fr := fr_poll wf.toWFCfg g p hr.notCanceled
    rcases C02_no_collateral wf.toWFCfg g p hr.notCanceled inv.noClean inv.noCancQ x hx with
      h | h | ⟨r, hr', hreach⟩
    · obtain ⟨r, h1, h2⟩ := ih (Or.inl h)
      refine ⟨r, h1, ?_⟩
      rcases h2 with h2 | ⟨q, hq, hb⟩
      · exact Or.inl (h2.mono fr.log)
      · exact Or.inr ⟨q, List.mem_append_left _ hq, hb⟩
    · obtain ⟨r, h1, h2⟩ := ih (Or.inr h)
      refine ⟨r, h1, ?_⟩
      rcases h2 with h2 | ⟨q, hq, hb⟩
      · exact Or.inl (h2.mono fr.log)
      · exact Or.inr ⟨q, List.mem_append_left _ hq, hb⟩
    · refine ⟨r, hreach, ?_⟩
      rcases hr' with hb | he
      · exact Or.inr ⟨p, List.mem_append_right _ (List.mem_singleton.mpr rfl), hb⟩
      · exact Or.inl he

/-- **… while every step that does not depend on such a step is run to completion**: when
the study reaches a final verdict (C05 proves it does under fair scheduler answers), every
step none of whose ancestors (nor itself) ended badly has completed successfully. -/
theorem C02_unrelated_complete {cfg : Cfg} (wf : WFCfg' cfg) {ps : List PollIn} {g : G}
    (h : ReachNC cfg ps g) (hv : verdict cfg g ≠ .RUNNING) (x : Nat) (hxn : x ≤ cfg.n)
    (hclean : ∀ r, Dag.Reach cfg.dag r x → ¬ Exhausted cfg g.log r ∧ ∀ p, p ∈ ps → ¬ BadRep p r) :
    x ∈ g.completed := by
  have hall : C05.allResolved cfg g := by
    apply Classical.byContradiction
    intro hn
    apply hv
    rw [C05.C05_verdict_running]
    refine ⟨?_, hn⟩
    rintro ⟨hc, _⟩
    rw [h.notCanceled] at hc; cases hc
  rcases hall x hxn with hc | hf | hcn
  · exact hc
  · obtain ⟨r, h1, h2⟩ := C02_no_collateral_history wf h x (Or.inl hf)
    rcases h2 with h2 | ⟨p, hp, hb⟩
    · exact absurd h2 (hclean r h1).1
    · exact absurd hb ((hclean r h1).2 p hp)
  · obtain ⟨r, h1, h2⟩ := C02_no_collateral_history wf h x (Or.inr hcn)
    rcases h2 with h2 | ⟨p, hp, hb⟩
    · exact absurd h2 (hclean r h1).1
    · exact absurd hb ((hclean r h1).2 p hp)


/-- the polls of a history that contains no cancel request -/
def pollsOf : List Op → List PollIn
  | [] => []
  | .poll p :: ops => p :: pollsOf ops
  | .cancel :: ops => pollsOf ops

def wfPolls (cfg : Cfg) : G → List PollIn → Bool
  | _, [] => true
  | g, p :: ps => wfPollB g p && wfPolls cfg (poll cfg g p).1 ps

theorem reachNC_of_wfPolls (cfg : Cfg) : ∀ (ps : List PollIn) (qs : List PollIn) (g : G),
    ReachNC cfg qs g → wfPolls cfg g ps = true →
    ReachNC cfg (qs ++ ps) (ps.foldl (fun g p => (poll cfg g p).1) g) := by
  intro ps
  induction ps with
  | nil => intro qs g h _; simpa using h
  | cons p ps ih =>
    intro qs g h hw
    simp only [wfPolls, Bool.and_eq_true] at hw
    have := ih (qs ++ [p]) _ (ReachNC.poll p h (wfPollB_sound hw.1)) hw.2
    simpa using this

/-! non-vacuity: the first five operations of the demo history are polls; step 2 is reported
FAILED in the fifth, its dependent 4 is swept; step 3 (no bad ancestor) completed -/
def demoPolls : List PollIn :=
  [⟨.OK, []⟩, ⟨.OK, [(1, some .FINISHED)]⟩, ⟨.OK, [(2, some .TIMEDOUT), (3, none)]⟩, ⟨.NOJOBS, []⟩,
   ⟨.OK, [(3, some .FINISHED), (2, some .FAILED)]⟩]

theorem demo_reachNC : ReachNC demoCfg demoPolls
    (demoPolls.foldl (fun g p => (poll demoCfg g p).1) (init demoCfg)) := by
  have := reachNC_of_wfPolls demoCfg demoPolls [] (init demoCfg) ReachNC.init (by decide +kernel)
  simpa using this

example : (demoPolls.foldl (fun g p => (poll demoCfg g p).1) (init demoCfg)).failed = [2, 4] ∧
    (demoPolls.foldl (fun g p => (poll demoCfg g p).1) (init demoCfg)).completed = [0, 1, 3] ∧
    BadRep ⟨.OK, [(3, some .FINISHED), (2, some .FAILED)]⟩ 2 ∧ Dag.Reach demoCfg.dag 2 4 := by
  refine ⟨by decide +kernel, by decide +kernel, ⟨.FAILED, by decide, Or.inl rfl⟩, ?_⟩
  exact Relation.ReflTransGen.single (show (4 : Nat) ∈ demoCfg.dag.adj 2 by decide)

/-- the witness the history theorem produces for the swept step 4 -/
example : ∃ r, Dag.Reach demoCfg.dag r 4 ∧
    (Exhausted demoCfg (demoPolls.foldl (fun g p => (poll demoCfg g p).1) (init demoCfg)).log r ∨
      ∃ p, p ∈ demoPolls ∧ BadRep p r) :=
  C02_no_collateral_history demo_wf demo_reachNC 4 (Or.inl (by decide +kernel))

end MaestroVerif.C02
