import MaestroVerif.Lemmas.ExecDemo

/-!
# C02 — Failure and cancellation stop exactly the dependent sub-graph

Scope (DESIGN.md §6 C02): the closure half is stated for histories without a
*study-wide* cancel request (`isCanceled = false`); after such a request nothing
at all is submitted (C07) and dependents of the steps cancelled by the launch
loop legitimately stay INITIALIZED.  A job reported CANCELLED *by the scheduler*
is inside this property.  "Every unrelated step still runs to completion" is the
liveness half and belongs to C05.
-/
namespace MaestroVerif.C02
open MaestroVerif.Exec MaestroVerif.Gen Relation

/-- **Descendant closure**: every child of a failed or cancelled step is failed
or cancelled. -/
theorem C02_closed {cfg : Cfg} (wf : WFCfg' cfg) {g : G} (h : Reachable cfg g)
    (hc : g.isCanceled = false) {i c : Nat} (hi : i ∈ g.failed ∨ i ∈ g.cancelled)
    (hcc : c ∈ cfg.dag.adj i) : c ∈ g.failed ∨ c ∈ g.cancelled :=
  closed_reachable wf h hc i c hi hcc

/-- … hence every *transitive* dependent. -/
theorem C02_descendants_closed {cfg : Cfg} (wf : WFCfg' cfg) {g : G} (h : Reachable cfg g)
    (hc : g.isCanceled = false) {i d : Nat} (hi : i ∈ g.failed ∨ i ∈ g.cancelled)
    (hd : Dag.Reach cfg.dag i d) : d ∈ g.failed ∨ d ∈ g.cancelled := by
  induction hd with
  | refl => exact hi
  | tail _ e ih => exact closed_reachable wf h hc _ _ ih e

/-- A failed / cancelled step (hence, by the closure, every dependent of an
unsuccessful step) is never queued, never tracked, never complete, never
launched (`freshOk`: no launch ever concerned a resolved step), and is not
reported INITIALIZED. -/
theorem C02_no_dependent_runs {cfg : Cfg} (wf : WFCfg' cfg) {g : G} (h : Reachable cfg g)
    {d : Nat} (hd : d ∈ g.failed ∨ d ∈ g.cancelled) :
    d ∉ g.ready ∧ d ∉ g.inProgress ∧ d ∉ g.completed ∧ g.status d ≠ .INITIALIZED ∧
      g.freshOk = true := by
  have A := invAll_reachable wf h
  have a := A.toInv.toInvA
  refine ⟨fun hr => ?_, fun hp => ?_, fun hc => ?_, a.badS d hd, A.b.freshOk⟩
  · have := a.rD d hr; rcases hd with hd | hd
    · exact this.1 hd
    · exact this.2 hd
  · have := a.ipD d hp; rcases hd with hd | hd
    · exact this.2.1 hd
    · exact this.2.2.1 hd
  · have := a.cD d hc; rcases hd with hd | hd
    · exact this.1 hd
    · exact this.2.1 hd

/-- failure is permanent -/
theorem C02_stays_failed (cfg : Cfg) (g : G) (p : PollIn) (x : Nat)
    (hx : x ∈ g.failed ∨ x ∈ g.cancelled) :
    x ∈ (poll cfg g p).1.failed ∨ x ∈ (poll cfg g p).1.cancelled := by
  rcases hx with hx | hx
  · exact Or.inl ((poll_completed cfg g p).1.failed x hx)
  · exact Or.inr ((poll_completed cfg g p).1.cancelled x hx)

/-- A bad report for a tracked step puts its whole sub-tree into the sweep
queues of that poll (FAILED, UNKNOWN → failed; CANCELLED → cancelled). -/
theorem C02_bad_report_queues_subtree {cfg : Cfg} (wf : WFCfg cfg) (g : G) (i : Nat) :
    (∀ x, x ∈ subtree cfg i → x ∈ (report cfg g i (some .FAILED)).cleanup) ∧
    (∀ x, x ∈ subtree cfg i → x ∈ (report cfg g i (some .UNKNOWN)).cleanup) ∧
    (∀ x, x ∈ subtree cfg i → x ∈ (report cfg g i (some .CANCELLED)).cancelQ) ∧
    (∀ x, x ∈ subtree cfg i ↔ Dag.Reach cfg.dag i x) := by
  refine ⟨?_, ?_, ?_, fun x => mem_subtree wf⟩ <;>
    (intro x hx; simp [report, terminal, setStatus, hx])

/-! non-vacuity: in the demo history step 2 failed and its dependent 4 was swept -/
example : (run demoCfg (demoOps.take 5)).isCanceled = false ∧
    (run demoCfg (demoOps.take 5)).failed = [2, 4] := by decide +kernel

end MaestroVerif.C02
