import MaestroVerif.Model.Exec

/-! # C05 — The study terminates and its final verdict and exit code are truthful (theorems are being added) -/
namespace MaestroVerif.C05
open MaestroVerif.Exec MaestroVerif.Gen

theorem C05_init_not_canceled (cfg : Cfg) : (init cfg).isCanceled = false := rfl

end MaestroVerif.C05
