import MaestroVerif.Lemmas.ConductorLemmas
import MaestroVerif.Lemmas.ExecDemo
import MaestroVerif.Lemmas.ExecLive
import MaestroVerif.Lemmas.ExecFair
import MaestroVerif.Gen.ExecTables

/-!
# C05 — The study terminates and its final verdict and exit code are truthful

This file: the decision logic of the verdict (`_check_study_completion`) and
the exit codes (over the enum values regenerated from the source), and the
liveness half: under *decisive* polls (the scheduler answers every tracked job
with FINISHED / FAILED / UNKNOWN / CANCELLED) every poll makes progress and a
final verdict is reached within `2 (n + 1) + 1` polls, from every reachable
state, whatever the submissions do (`Lemmas/ExecLive.lean`).
-/
namespace MaestroVerif.C05
open MaestroVerif.Exec MaestroVerif.Gen

def allResolved (cfg : Cfg) (g : G) : Prop :=
  ∀ k, k ≤ cfg.n → k ∈ g.completed ∨ k ∈ g.failed ∨ k ∈ g.cancelled

theorem allResolved_iff (cfg : Cfg) (g : G) :
    ((List.range (cfg.n + 1)).all
      (fun k => g.completed.contains k || g.failed.contains k || g.cancelled.contains k) = true)
    ↔ allResolved cfg g := by
  simp only [List.all_eq_true, List.mem_range, Bool.or_eq_true, List.contains_iff_mem, allResolved]
  constructor
  · intro h k hk; have := h k (by omega); grind
  · intro h k hk; have := h k (by omega); grind

/-- **exit codes** (`sys.exit(completion_status.value)`), over the generated enum -/
theorem C05_exit_codes :
    exitCode .FINISHED = 0 ∧ exitCode .RUNNING = 1 ∧ exitCode .FAILURE = 2 ∧ exitCode .CANCELLED = 3 := by
  decide

/-- **FINISHED is returned exactly when every step is resolved, none failed or
was cancelled, and no cancel request is pending with nothing in flight.** -/
theorem C05_verdict_finished (cfg : Cfg) (g : G) :
    verdict cfg g = .FINISHED ↔
      (allResolved cfg g ∧ g.failed = [] ∧ g.cancelled = [] ∧
        ¬ (g.isCanceled = true ∧ g.inProgress = [])) := by
  have hR := allResolved_iff cfg g
  unfold verdict
  generalize (List.range (cfg.n + 1)).all _ = R at hR ⊢
  rw [← hR]
  simp only [ne_eq, ← List.isEmpty_iff]
  cases g.isCanceled <;> cases g.inProgress.isEmpty <;> cases R <;> cases g.cancelled.isEmpty <;>
    cases g.failed.isEmpty <;> simp

/-- CANCELLED: a cancel was requested and nothing is in flight, or every step is
resolved and some step was cancelled. -/
theorem C05_verdict_cancelled (cfg : Cfg) (g : G) :
    verdict cfg g = .CANCELLED ↔
      ((g.isCanceled = true ∧ g.inProgress = []) ∨ (allResolved cfg g ∧ g.cancelled ≠ [])) := by
  have hR := allResolved_iff cfg g
  unfold verdict
  generalize (List.range (cfg.n + 1)).all _ = R at hR ⊢
  rw [← hR]
  simp only [ne_eq, ← List.isEmpty_iff]
  cases g.isCanceled <;> cases g.inProgress.isEmpty <;> cases R <;> cases g.cancelled.isEmpty <;>
    cases g.failed.isEmpty <;> simp

/-- FAILURE: every step resolved, nothing cancelled, something failed. -/
theorem C05_verdict_failure (cfg : Cfg) (g : G) :
    verdict cfg g = .FAILURE ↔
      (¬ (g.isCanceled = true ∧ g.inProgress = []) ∧ allResolved cfg g ∧ g.cancelled = [] ∧
        g.failed ≠ []) := by
  have hR := allResolved_iff cfg g
  unfold verdict
  generalize (List.range (cfg.n + 1)).all _ = R at hR ⊢
  rw [← hR]
  simp only [ne_eq, ← List.isEmpty_iff]
  cases g.isCanceled <;> cases g.inProgress.isEmpty <;> cases R <;> cases g.cancelled.isEmpty <;>
    cases g.failed.isEmpty <;> simp

/-- **FINISHED/0 only when every step finished successfully**: in every
reachable state with verdict FINISHED each step instance is in state FINISHED
(DRYRUN in a dry run), and no cancel had been requested. -/
theorem C05_finished_all_success {cfg : Cfg} (wf : WFCfg' cfg) {g : G} (h : Reachable cfg g)
    (hv : verdict cfg g = .FINISHED) :
    (∀ k, k ≤ cfg.n → k ≠ 0 → g.status k = .FINISHED ∨ g.status k = .DRYRUN) ∧
    g.isCanceled = false := by
  obtain ⟨hall, hf, hcn, hnc⟩ := (C05_verdict_finished cfg g).mp hv
  have A := invAll_reachable wf h
  have a := A.toInv.toInvA
  constructor
  · intro k hk hk0
    rcases hall k hk with h1 | h1 | h1
    · exact a.cmpS k h1 hk0
    · rw [hf] at h1; simp at h1
    · rw [hcn] at h1; simp at h1
  · cases hc : g.isCanceled with
    | false => rfl
    | true =>
      exfalso
      apply hnc
      refine ⟨hc, ?_⟩
      cases hl : g.inProgress with
      | nil => rfl
      | cons x xs =>
        exfalso
        have hx : x ∈ g.inProgress := by rw [hl]; simp
        have d := a.ipD x hx
        rcases hall x (a.bnd x (Or.inr (Or.inl hx))) with h1 | h1 | h1
        · exact d.1 h1
        · exact d.2.1 h1
        · exact d.2.2.1 h1

/-- **… and always then, unless a cancel was requested**: if every step is
complete and no cancel was requested, the verdict is FINISHED. -/
theorem C05_all_success_finished {cfg : Cfg} (wf : WFCfg' cfg) {g : G} (h : Reachable cfg g)
    (hall : ∀ k, k ≤ cfg.n → k ∈ g.completed) (hc : g.isCanceled = false) :
    verdict cfg g = .FINISHED := by
  have a := (invAll_reachable wf h).toInv.toInvA
  rw [C05_verdict_finished]
  refine ⟨fun k hk => Or.inl (hall k hk), ?_, ?_, by simp [hc]⟩
  · cases hl : g.failed with
    | nil => rfl
    | cons x xs =>
      exfalso
      have hx : x ∈ g.failed := by rw [hl]; simp
      exact (a.cD x (hall x (a.bnd x (by simp [hx])))).1 hx
  · cases hl : g.cancelled with
    | nil => rfl
    | cons x xs =>
      exfalso
      have hx : x ∈ g.cancelled := by rw [hl]; simp
      exact (a.cD x (hall x (a.bnd x (by simp [hx])))).2.1 hx

/-- the verdict is one of the four values and RUNNING means something is still
unresolved or in flight (the three final verdicts are exclusive and exhaustive) -/
theorem C05_verdict_running (cfg : Cfg) (g : G) :
    verdict cfg g = .RUNNING ↔
      (¬ (g.isCanceled = true ∧ g.inProgress = []) ∧ ¬ allResolved cfg g) := by
  have hR := allResolved_iff cfg g
  unfold verdict
  generalize (List.range (cfg.n + 1)).all _ = R at hR ⊢
  rw [← hR]
  simp only [ne_eq, ← List.isEmpty_iff]
  cases g.isCanceled <;> cases g.inProgress.isEmpty <;> cases R <;> cases g.cancelled.isEmpty <;>
    cases g.failed.isEmpty <;> simp

/-! non-vacuity -/
example : verdict demoCfg (run demoCfg demoOps) = .CANCELLED ∧
    exitCode (verdict demoCfg (run demoCfg demoOps)) = 3 := by
  rw [demo_state.2.2.2.2.2]; decide


/-! ## liveness -/

/-- **Progress**: from any reachable state, a poll in which the scheduler answers
every tracked job for good (FINISHED / FAILED / UNKNOWN / CANCELLED; submissions
may succeed or fail as they like) ends the study, or resolves a step that was
unresolved, or — when nothing was tracked — leaves something tracked.  There is
no state in which the conductor waits with nothing to wait for. -/
theorem C05_progress {cfg : Cfg} (wf : WFCfg' cfg) (ha : Dag.Acyclic cfg.dag) {g : G}
    (hr : Reachable cfg g) {p : PollIn} (hd : Decisive g p) :
    verdict cfg (poll cfg g p).1 ≠ .RUNNING ∨
    unresolved cfg (poll cfg g p).1 < unresolved cfg g ∨
    (unresolved cfg (poll cfg g p).1 ≤ unresolved cfg g ∧ g.inProgress = [] ∧
      (poll cfg g p).1.inProgress ≠ []) :=
  decisive_progress wf ha hr hd

theorem unresolved_le_n (cfg : Cfg) (g : G) : unresolved cfg g ≤ cfg.n + 1 := by
  unfold unresolved
  have := List.length_filter_le (fun k => !resolvedB g k) (List.range (cfg.n + 1))
  simpa using this

/-- **Termination**: from any reachable state (any history of polls, lost
answers, restarts, hardware failures, failed submissions, cancel requests), every
run of more than `2 (n + 1) + 1` decisive polls reaches a verdict other than
RUNNING — at which point the conductor returns it and exits with its value. -/
theorem C05_terminates {cfg : Cfg} (wf : WFCfg' cfg) (ha : Dag.Acyclic cfg.dag) {g : G}
    (hr : Reachable cfg g) (ps : List PollIn) (hrun : DecisiveRun cfg g ps)
    (hlen : 2 * (cfg.n + 1) + 1 < ps.length) :
    ∃ k, k < ps.length ∧ verdict cfg (runPolls cfg g (ps.take (k + 1))) ≠ .RUNNING := by
  apply decisive_terminates wf ha (2 * (cfg.n + 1) + 1) g hr _ ps hrun hlen
  have := unresolved_le_n cfg g
  have : idle g ≤ 1 := by unfold idle; split <;> omega
  omega

/-- the restart budget of the whole study -/
def totalBudget (cfg : Cfg) : Nat :=
  ((List.range (cfg.n + 1)).map (fun i => if cfg.hasRestart i then cfg.rlimit i else 0)).sum

theorem remaining_le_total (cfg : Cfg) (g : G) : remaining cfg g ≤ totalBudget cfg := by
  unfold remaining totalBudget
  apply sum_map_le
  intro i _
  unfold rem1
  split <;> omega

/-- **Termination with time-outs** (`Lemmas/ExecFair.lean`): when every step that has a restart
command has a finite restart limit (`-r` other than 0), every run of polls in which each tracked
job is answered - with an answer that ends the job for good (FINISHED, FAILED, UNKNOWN,
CANCELLED) *or with TIMEDOUT* - reaches a verdict other than RUNNING within
`2 (n + 1 + total restart budget) + 1` polls, from any reachable state: a time-out either
resolves the step (no restart command, budget used up, cancel requested, restart submission
refused) or spends one unit of a budget that is never refunded. -/
theorem C05_terminates_with_timeouts {cfg : Cfg} (wf : WFCfg' cfg) (ha : Dag.Acyclic cfg.dag)
    (fb : FiniteBudget cfg) {g : G} (hr : Reachable cfg g) (ps : List PollIn)
    (hrun : FairRun cfg g ps) (hlen : 2 * (cfg.n + 1 + totalBudget cfg) + 1 < ps.length) :
    ∃ k, k < ps.length ∧ verdict cfg (runPolls cfg g (ps.take (k + 1))) ≠ .RUNNING := by
  apply fair_terminates wf ha fb (2 * (cfg.n + 1 + totalBudget cfg) + 1) g hr _ ps hrun hlen
  have := unresolved_le_n cfg g
  have := remaining_le_total cfg g
  have := idle_le g
  unfold fairMeasure
  omega

/-- every fair poll makes progress on the measure "unresolved steps + unspent restart budget" -/
theorem C05_fair_progress {cfg : Cfg} (wf : WFCfg' cfg) (ha : Dag.Acyclic cfg.dag)
    (fb : FiniteBudget cfg) {g : G} (hr : Reachable cfg g) {p : PollIn} (hf : Fair g p) :
    verdict cfg (poll cfg g p).1 ≠ .RUNNING ∨
    fairMeasure cfg (poll cfg g p).1 < fairMeasure cfg g :=
  fair_progress wf ha fb hr hf

/-- the demo configuration has a finite budget (step 2: limit 1), and in its history the
time-out of step 2 spent it: the restart counter went from 0 to 1 -/
example : FiniteBudget demoCfg ∧ totalBudget demoCfg = 1 ∧
    (run demoCfg (demoOps.take 2)).restarts 2 = 0 ∧ (run demoCfg (demoOps.take 3)).restarts 2 = 1 := by
  refine ⟨?_, by decide +kernel, by decide +kernel, by decide +kernel⟩
  intro i hi
  have : i = 2 := by simpa [demoCfg] using hi
  subst this
  decide

/-- the premises are satisfiable: the demo configuration is acyclic, its history
is reachable, and a decisive continuation ends it -/
example : Dag.Acyclic demoCfg.dag :=
  (C14.C14_detect_exact demoCfg.dag demo_wf.toWFCfg.dagwf).1.mp (by decide +kernel)

example : verdict demoCfg (runPolls demoCfg (run demoCfg [.poll ⟨.OK, []⟩])
    [⟨.OK, [(1, some .FINISHED)]⟩, ⟨.OK, [(2, some .FINISHED), (3, some .FAILED)]⟩]) = .FAILURE := by
  decide +kernel


/-! ## tie to the source: the order of the verdicts in `_check_study_completion` -/

/-- the verdicts of the model's decision, in the order its branches are tried -/
def verdictReturns : List StudyStatus := [.CANCELLED, .CANCELLED, .FAILURE, .FINISHED, .RUNNING]

/-- **The `return StudyStatus.X` statements of `_check_study_completion`, re-read
from the source on every run, come in the order of the model's branches**
(cancel-and-drained, then all resolved: cancelled before failed before finished,
else running). -/
theorem C05_completion_returns : completionReturns = verdictReturns := by decide

/-- and the model's `verdict` realises exactly that order -/
theorem C05_verdict_order (cfg : Cfg) (g : G) :
    (g.isCanceled = true ∧ g.inProgress = [] → verdict cfg g = .CANCELLED) ∧
    (allResolved cfg g → g.cancelled ≠ [] → verdict cfg g = .CANCELLED) ∧
    (¬ (g.isCanceled = true ∧ g.inProgress = []) → allResolved cfg g → g.cancelled = [] → g.failed ≠ [] →
      verdict cfg g = .FAILURE) := by
  refine ⟨fun h => (C05_verdict_cancelled cfg g).mpr (Or.inl h),
    fun h1 h2 => (C05_verdict_cancelled cfg g).mpr (Or.inr ⟨h1, h2⟩),
    fun h0 h1 h2 h3 => (C05_verdict_failure cfg g).mpr ⟨h0, h1, h2, h3⟩⟩

/-! ### the conductor loop (`Model/Conductor.lean`, `Conductor.monitor_study`) -/

/-- **the loop returns the first verdict other than RUNNING, and that verdict is the one of the
state it stops in**; `conductor` / `maestro run -fg` exit with its value (`C05_exit_codes`).  A
failed status query (C20) ends the loop by an exception instead. -/
theorem C05_loop_returns_first_final (cfg : Cfg) (its : List Conductor.Iter) (s s' : Conductor.CS)
    (ret : Ret) (h : Conductor.monitor cfg s its = (s', some ret)) :
    ret = .raised ∨ ∃ v, ret = .status v ∧ v ≠ .RUNNING ∧ v = verdict cfg s'.g :=
  Conductor.monitor_returns cfg its s s' ret h

/-- every state the loop visits is a reachable state of the execution graph: the theorems about
reachable states hold throughout a conductor run, cancel requests included -/
theorem C05_loop_states_reachable {cfg : Cfg} (s : Conductor.CS) (it : Conductor.Iter)
    (hr : Reachable cfg s.g)
    (hwf : WFPoll (if it.lock && it.acquire then cancel s.g else s.g) it.answer) :
    Reachable cfg (Conductor.iter cfg s it).1.g :=
  Conductor.iter_reachable s it hr hwf

/-- non-vacuity: the demo history as a conductor run - without a cancel request the loop stops in
the fifth iteration with FAILURE (step 2 failed, its dependent 4 was swept); when the request
arrives as a lock file in the fourth iteration the loop returns CANCELLED once the jobs drained -/
example : (Conductor.monitor demoCfg (Conductor.start demoCfg)
    [⟨false, false, ⟨.OK, []⟩⟩, ⟨false, false, ⟨.OK, [(1, some .FINISHED)]⟩⟩,
     ⟨false, false, ⟨.OK, [(2, some .TIMEDOUT), (3, none)]⟩⟩, ⟨false, false, ⟨.NOJOBS, []⟩⟩,
     ⟨false, false, ⟨.OK, [(3, some .FINISHED), (2, some .FAILED)]⟩⟩,
     ⟨true, true, ⟨.OK, []⟩⟩]).2 = some (.status .FAILURE) ∧
    (Conductor.monitor demoCfg (Conductor.start demoCfg)
    [⟨false, false, ⟨.OK, []⟩⟩, ⟨false, false, ⟨.OK, [(1, some .FINISHED)]⟩⟩,
     ⟨false, false, ⟨.OK, [(2, some .TIMEDOUT), (3, none)]⟩⟩, ⟨true, true, ⟨.NOJOBS, []⟩⟩,
     ⟨false, false, ⟨.OK, [(3, some .FINISHED), (2, some .FAILED)]⟩⟩]).2 = some (.status .CANCELLED) := by
  decide +kernel

end MaestroVerif.C05
