import MaestroVerif.Lemmas.DagEdge
import MaestroVerif.Lemmas.DagTopo
import MaestroVerif.Lemmas.DagWalk

/-!
# C14 — The workflow graph stays acyclic and its orderings are exact

Property theorems only (helper lemmas live in `Lemmas/Dag*.lean`).  The model
is `Model/Dag.lean`; it is tied to `maestrowf/datastructures/dag.py` by the
operation-sequence correspondence of `harness/props/c14.py`.

All statements quantify over *every* sequence of `add_node` / `add_edge` /
`remove_edge` operations (valid, duplicate, dangling, self and cycle-creating)
and every resulting graph; there is no bound on sizes.
-/
namespace MaestroVerif.C14
open MaestroVerif.Dag Relation

/-- Every graph reachable by any operation sequence is well formed. -/
theorem C14_wf_invariant (ops : List Op) : WF (run empty ops) := by
  suffices h : ∀ g, WF g → WF (run g ops) from h _ wf_empty
  induction ops with
  | nil => intro g h; exact h
  | cons op ops ih =>
    intro g h
    simp only [run, List.foldl_cons]
    apply ih
    cases op with
    | addNode n => exact wf_addNode h n
    | addEdge s d => exact wf_addEdge h s d
    | removeEdge s d => exact wf_removeEdge h s d

/-- **The graph never contains a cycle**, whatever operations are applied. -/
theorem C14_acyclic_invariant (ops : List Op) : Acyclic (run empty ops) := by
  suffices h : ∀ g, WF g → Acyclic g → WF (run g ops) ∧ Acyclic (run g ops) from
    (h _ wf_empty (by intro a hp; obtain ⟨c, e, _⟩ := TransGen.head'_iff.mp hp; simp [Edge, empty] at e)).2
  induction ops with
  | nil => intro g h1 h2; exact ⟨h1, h2⟩
  | cons op ops ih =>
    intro g h1 h2
    simp only [run, List.foldl_cons]
    cases op with
    | addNode n => exact ih _ (wf_addNode h1 n) (acyclic_addNode h1 h2 n)
    | addEdge s d => exact ih _ (wf_addEdge h1 s d) (acyclic_addEdge h1 h2 s d)
    | removeEdge s d => exact ih _ (wf_removeEdge h1 s d) (acyclic_removeEdge h2 s d)

/-- **A refused edge leaves the graph unchanged** (any raising outcome,
including the cycle refusal and the missing-source `ValueError`). -/
theorem C14_refused_unchanged (g : Dag) (wf : WF g) (s d : Nat)
    (h : (addEdge g s d).2 ≠ .ok) : (addEdge g s d).1 = g := by
  rcases addEdge_cases g s d with h' | h' | ⟨_, hs, hd, hnd, h' | h' | h'⟩
  · rw [h']
  · rw [h']
  · exact absurd h'.1 (detectCycle_fuel _ (wf_withEdge wf hs hd hnd))
  · rw [h'.2] at h; exact absurd rfl h
  · rw [h'.2, restore_eq hnd]

/-- A self edge is refused and leaves the graph unchanged. -/
theorem C14_self_edge_refused (g : Dag) (s : Nat) : (addEdge g s s).1 = g := by
  simp [addEdge]

/-- **Only cycle-creating edges are refused as cycles**: if `add_edge(s, d)`
raises the cycle exception then `s` was already reachable from `d`. -/
theorem C14_no_valid_edge_refused (g : Dag) (ha : Acyclic g) (s d : Nat)
    (h : (addEdge g s d).2 = .cycleError) : Reach g d s := by
  rcases addEdge_cases g s d with h' | h' | ⟨_, _, _, _, h' | h' | h'⟩
  · rw [h'] at h; cases h
  · rw [h'] at h; cases h
  · rw [h'.2] at h; cases h
  · rw [h'.2] at h; cases h
  · have hc := detectCycle_sound _ h'.1
    apply Classical.byContradiction
    intro hn
    apply hc
    intro a hp
    rcases path_withEdge hp with h1 | ⟨h1, h2⟩
    · exact ha a h1
    · exact hn (h2.trans h1)

/-- **Every cycle-creating edge is refused**: if `s` is reachable from `d` the
edge `(s, d)` between existing nodes is rejected with the cycle exception and
the graph stays as it was. -/
theorem C14_cycle_edge_refused (g : Dag) (wf : WF g) (s d : Nat) (hsd : s ≠ d)
    (hs : s ∈ g.nodes) (hd : d ∈ g.nodes) (hnd : d ∉ g.adj s) (hr : Reach g d s) :
    addEdge g s d = (g, .cycleError) := by
  have hwf := wf_withEdge wf hs hd hnd
  have hcyc : ¬ Acyclic (withEdge g s d) := by
    intro ha
    apply ha s
    apply TransGen.head'_iff.mpr
    refine ⟨d, edge_withEdge.mpr (Or.inr ⟨rfl, rfl⟩), ?_⟩
    exact ReflTransGen.mono (fun a b e => edge_withEdge.mpr (Or.inl e)) d s hr
  rcases addEdge_cases g s d with h' | h' | ⟨_, _, _, _, h' | h' | h'⟩
  · exfalso
    unfold addEdge at h'
    simp [hsd, hs, hd, hnd] at h'
    split at h' <;> simp at h'
    rename_i hdc
    exact hcyc (detectCycle_complete _ hwf (by simpa [withEdge] using hdc))
  · exfalso
    unfold addEdge at h'
    simp [hsd, hs, hd, hnd] at h'
    split at h' <;> simp at h'
  · exact absurd h'.1 (detectCycle_fuel _ hwf)
  · exact absurd (detectCycle_complete _ hwf h'.1) hcyc
  · rw [h'.2, restore_eq hnd]

/-- **A valid edge is added**: between existing distinct nodes, when it closes
no cycle, `add_edge` returns normally and the edge is in the graph. -/
theorem C14_valid_edge_added (g : Dag) (wf : WF g) (ha : Acyclic g) (s d : Nat) (hsd : s ≠ d)
    (hs : s ∈ g.nodes) (hd : d ∈ g.nodes) (hr : ¬ Reach g d s) :
    (addEdge g s d).2 = .ok ∧ Edge (addEdge g s d).1 s d := by
  by_cases hnd : d ∈ g.adj s
  · simp [addEdge, hsd, hs, hd, hnd, Edge]
  · rcases addEdge_cases g s d with h' | h' | ⟨_, _, _, _, h' | h' | h'⟩
    · exfalso
      unfold addEdge at h'
      simp [hsd, hs, hd, hnd] at h'
      split at h' <;> simp at h'
      have := congrArg (fun g => g.adj s) h'
      simp [setAdj] at this
    · exfalso
      unfold addEdge at h'
      simp [hsd, hs, hd, hnd] at h'
      split at h' <;> simp at h'
    · exact absurd h'.1 (detectCycle_fuel _ (wf_withEdge wf hs hd hnd))
    · rw [h'.2]; exact ⟨rfl, edge_withEdge.mpr (Or.inr ⟨rfl, rfl⟩)⟩
    · exfalso
      have := C14_no_valid_edge_refused g ha s d (by rw [h'.2])
      exact hr this

/-- `detect_cycle` is exact on well-formed graphs. -/
theorem C14_detect_exact (g : Dag) (wf : WF g) :
    (detectCycle g = some false ↔ Acyclic g) ∧ (detectCycle g = some true ↔ ¬ Acyclic g) := by
  have hf := detectCycle_fuel g wf
  cases h : detectCycle g with
  | none => exact absurd h hf
  | some b =>
    cases b with
    | false =>
      have := detectCycle_complete g wf h
      simp [this]
    | true =>
      have := detectCycle_sound g h
      simp [this]

/-- **Topological ordering places every step after all of its dependencies**
and lists every node exactly once. -/
theorem C14_toposort (g : Dag) (wf : WF g) (ha : Acyclic g) :
    ∃ l, topoSort g = some l ∧ l.Perm g.nodes ∧
      ∀ u v, Edge g u v → l.idxOf u < l.idxOf v := by
  cases h : topoSort g with
  | none => exact absurd h (topoSort_fuel g wf)
  | some l =>
    obtain ⟨h1, h2, h3⟩ := topoSort_spec g wf ha h
    refine ⟨l, rfl, (List.perm_ext_iff_of_nodup h1 wf.nodup).mpr h2, ?_⟩
    intro u v e
    exact (topoOK_idx g h1 h3 ((h2 u).mpr (wf.src u v e)) e).1

/-- **The dependents computed by `bfs_subtree` are exactly the reachable nodes,
each listed once.** -/
theorem C14_bfs_exact (g : Dag) (wf : WF g) (s : Nat) :
    ∃ l, bfs g s = some l ∧ l.Nodup ∧ ∀ x, x ∈ l ↔ Reach g s x := by
  cases h : bfs g s with
  | none => exact absurd h (bfs_fuel g wf s)
  | some l => exact ⟨l, rfl, bfs_spec g s h⟩

/-- The same for `dfs_subtree` (after the visited-set repair). -/
theorem C14_dfs_exact (g : Dag) (wf : WF g) (s : Nat) :
    ∃ l, dfs g s = some l ∧ l.Nodup ∧ ∀ x, x ∈ l ↔ Reach g s x := by
  cases h : dfs g s with
  | none => exact absurd h (dfs_fuel g wf s)
  | some l => exact ⟨l, rfl, dfs_spec g s h⟩

/-- The recursion depth `|V| + 1` passed by the entry points never runs out
(termination of the three recursive walks and of the BFS loop). -/
theorem C14_fuel_suffices (g : Dag) (wf : WF g) (s : Nat) :
    detectCycle g ≠ none ∧ topoSort g ≠ none ∧ bfs g s ≠ none ∧ dfs g s ≠ none :=
  ⟨detectCycle_fuel g wf, topoSort_fuel g wf, bfs_fuel g wf s, dfs_fuel g wf s⟩

/-! ### non-vacuity: a concrete diamond built by operations, on which the
hypotheses hold and the functions compute what the theorems say -/

def diamondOps : List Op :=
  [.addNode 0, .addNode 1, .addNode 2, .addNode 3, .addEdge 0 1, .addEdge 0 2,
   .addEdge 1 3, .addEdge 2 3, .addEdge 3 0, .addEdge 1 1, .addEdge 7 1]

example : (run empty diamondOps).nodes = [0, 1, 2, 3] := by decide
example : (run empty diamondOps).adj 0 = [1, 2] ∧ (run empty diamondOps).adj 3 = [] := by decide
example : (addEdge (run empty diamondOps) 3 0).2 = .cycleError := by decide
example : bfs (run empty diamondOps) 0 = some [0, 1, 2, 3] := by decide
example : dfs (run empty diamondOps) 0 = some [0, 1, 3, 2] := by decide
example : topoSort (run empty diamondOps) = some [0, 2, 1, 3] := by decide
example : WF (run empty diamondOps) ∧ Acyclic (run empty diamondOps) :=
  ⟨C14_wf_invariant _, C14_acyclic_invariant _⟩

end MaestroVerif.C14
