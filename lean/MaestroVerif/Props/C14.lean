import MaestroVerif.Model.Dag

/-! # C14 — The workflow graph stays acyclic and its orderings are exact -/
namespace MaestroVerif.C14
open MaestroVerif.Dag

theorem C14_selfedge_unchanged (g : Dag) (s : Nat) : (addEdge g s s).1 = g := by
  simp [addEdge]

end MaestroVerif.C14
