import MaestroVerif.Lemmas.CsvLemmas
import MaestroVerif.Lemmas.LockLemmas
import MaestroVerif.Lemmas.DagWalk

/-!
# C12 — The status table is complete, consistent and always readable

* round trip: `Model/Csv.lean` (writer text of `write_status`, reader
  `csvtable_to_dict`), validated against the real functions by the round-trip
  correspondence;
* concurrency: `Model/Lock.lean`, whose writer / reader programs are compared
  with the operation order recorded from the real `write_status` /
  `Conductor.get_status` (protocol correspondence).  What `filelock` and the
  OS provide (mutual exclusion, no torn single `write`) is trusted, not proved.
* row completeness / consistency against the execution state is checked on the
  real conductor-level runs (every poll) and rests on C14 (`bfs_subtree` lists
  every instance reachable from `_source` exactly once).
-/
namespace MaestroVerif.C12
open MaestroVerif.Csv

structure Clean (header : List Str) (rows : List (List Str)) : Prop where
  two    : 2 ≤ header.length
  nodup  : header.Nodup
  hclean : ∀ f, f ∈ header → CleanF f
  rlen   : ∀ r, r ∈ rows → r.length = header.length
  rclean : ∀ r, r ∈ rows → ∀ f, f ∈ r → CleanF f

/-- the columns of the table: column `i` lists field `i` of every row, in order -/
def columns (header : List Str) (rows : List (List Str)) : List (List Str) :=
  rows.foldl (fun cols r => List.zipWith (fun c f => c ++ [f]) cols r) (header.map fun _ => [])

theorem all2_lines (n : Nat) : ∀ (rows : List (List Str)), (∀ r, r ∈ rows → r ≠ [] ∧ r.length = n ∧
    ∀ f, f ∈ r → CleanF f) → All2 (LineOf n) (addNl (rows.map (join [',']))) rows := by
  intro rows
  induction rows with
  | nil => intro _; exact All2.nil
  | cons r rs ih =>
    intro h
    have hr := h r (by simp)
    cases rs with
    | nil =>
      simp only [List.map_cons, List.map_nil, addNl]
      exact All2.cons (hr.2.1 ▸ lineOf_plain r hr.1 hr.2.2) All2.nil
    | cons r' rs' =>
      simp only [List.map_cons, addNl]
      refine All2.cons (hr.2.1 ▸ lineOf_nl r hr.1 hr.2.2) ?_
      have := ih (fun x hx => h x (by simp [hx]))
      simpa using this

theorem zip_map_nil (header : List Str) :
    header.zip (header.map fun _ => ([] : List Str)) = header.map (fun x => (x, [])) := by
  induction header with
  | nil => rfl
  | cons h hs ih => simp [ih]

/-- **Round trip (partial: fields free of `,`, `\n`, `\r`)**: whatever the writer
emits is read back into the same table — header order kept, one entry per row in
every column, in row order. -/
theorem C12_roundtrip_partial (header : List Str) (rows : List (List Str)) (c : Clean header rows) :
    readCsv (writeCsv header rows) = .ok (header.zip (columns header rows)) := by
  have hne : header ≠ [] := by intro h; have := c.two; simp [h] at this
  have hline : ∀ r, r ∈ header :: rows → r ≠ [] ∧ r.length = header.length ∧ ∀ f, f ∈ r → CleanF f := by
    intro r hr
    rcases List.mem_cons.mp hr with h | h
    · subst h; exact ⟨hne, rfl, c.hclean⟩
    · have := c.rlen r h
      refine ⟨?_, this, c.rclean r h⟩
      intro h0; have := c.two; simp [h0] at *; omega
  have hl : ∀ l, l ∈ (header :: rows).map (join [',']) → '\n' ∉ l ∧ l ≠ [] := by
    intro l hl
    obtain ⟨r, hr, rfl⟩ := List.mem_map.mp hl
    obtain ⟨h1, h2, h3⟩ := hline r hr
    constructor
    · intro hc
      rcases mem_join hc with h | ⟨p, hp, hcp⟩
      · simp at h
      · exact (h3 p hp).nl hcp
    · exact join_ne_nil_of_two [','] (by simp) r (by have := c.two; omega)
  have hcr : '\r' ∉ writeCsv header rows := by
    intro hc
    unfold writeCsv at hc
    rcases mem_join hc with h | ⟨l, hl', hcl⟩
    · simp at h
    · obtain ⟨r, hr, rfl⟩ := List.mem_map.mp hl'
      rcases mem_join hcl with h | ⟨p, hp, hcp⟩
      · simp at h
      · exact ((hline r hr).2.2 p hp).cr hcp
  unfold readCsv
  rw [translate_clean _ hcr]
  unfold writeCsv
  rw [readlines_join _ hl]
  have hhead : stripNl (join [','] header) = join [','] header :=
    stripNl_clean _ (hl _ (by simp)).1
  have hsplit : splitOn ',' (join [','] header) = header :=
    splitOn_join ',' header hne (fun f hf => (c.hclean f hf).comma)
  cases rows with
  | nil =>
    simp only [List.map_cons, List.map_nil, addNl, hhead, hsplit, addLines]
    rw [initTable_nodup header c.nodup]
    simp [columns, zip_map_nil]
  | cons r rs =>
    simp only [List.map_cons, addNl]
    have hnl : stripNl (join [','] header ++ ['\n']) = join [','] header :=
      stripNl_append_nl _ (hl _ (by simp)).1
    simp only [hnl, hsplit]
    rw [initTable_nodup header c.nodup, ← zip_map_nil]
    have hall := all2_lines header.length (r :: rs) (fun x hx => hline x (by simp [hx]))
    simp only [List.map_cons] at hall
    rw [addLines_zip header c.nodup _ (r :: rs) _ (by simp) hall (fun x hx => c.rlen x hx)]
    rfl

/-- the reader never raises on what the writer emits (same hypothesis) -/
theorem C12_reader_total_partial (header : List Str) (rows : List (List Str)) (c : Clean header rows) :
    ∃ t, readCsv (writeCsv header rows) = .ok t :=
  ⟨_, C12_roundtrip_partial header rows c⟩

def failure : Except Err Table → Option Err
  | .ok _ => none
  | .error e => some e

def outcome : Except Err Table → Option Table
  | .ok t => some t
  | .error _ => none

/-- **proved counterexample of the unrestricted round trip (known finding
C12-comma)**: a parameter value containing a comma makes the reader raise
`KeyError`. -/
theorem C12_counterexample_comma :
    failure (readCsv (writeCsv ["Step Name".toList, "Params".toList]
      [["s".toList, "P:1,2".toList]])) = some .keyError := by decide +kernel

/-- … and a newline silently misaligns the table (the value is cut and a bogus
row appears) instead of being read back. -/
theorem C12_counterexample_newline :
    outcome (readCsv (writeCsv ["Step Name".toList, "Params".toList] [["s".toList, "a\nb".toList]])) =
      some [("Step Name".toList, ["s".toList, "b".toList]), ("Params".toList, ["a".toList])] := by
  decide +kernel

/-! ### a concurrent reader never observes a torn or partial table -/
open MaestroVerif.Lock in
/-- **For every schedule of writer and reader steps (including lock time-outs on
either side) every completed read returned a completely written table.** -/
theorem C12_no_torn_read (sched : List (Actor × Choice)) :
    ∀ f, f ∈ (run init sched).reads → ∃ v, f = File.complete v :=
  (linv_run sched init linv_init).reads

open MaestroVerif.Lock in
/-- the lock is held whenever the file is truncated / half written -/
theorem C12_torn_only_under_lock (sched : List (Actor × Choice)) :
    (run init sched).file = File.torn → (run init sched).holder = some Actor.writer :=
  fun h => ((linv_run sched init linv_init).torn h).1

/-! non-vacuity -/
example : Clean ["Step Name".toList, "State".toList]
    [["a".toList, "FINISHED".toList], ["b_X.1".toList, "RUNNING".toList]] := by
  refine ⟨by decide, by decide, ?_, ?_, ?_⟩
  · intro f hf; simp at hf; rcases hf with h | h <;> subst h <;> exact ⟨by decide, by decide, by decide⟩
  · intro r hr; simp at hr; rcases hr with h | h <;> subst h <;> rfl
  · intro r hr f hf; simp at hr
    rcases hr with h | h <;> subst h <;> simp at hf <;> rcases hf with h | h <;> subst h <;>
      exact ⟨by decide, by decide, by decide⟩

open MaestroVerif.Lock in
example : (run init [(.writer, .go), (.writer, .go), (.reader, .go), (.writer, .go), (.writer, .go),
    (.writer, .go), (.reader, .go), (.reader, .go), (.reader, .go), (.reader, .go)]).reads
    = [File.complete 1] := by decide

/-- **Why removing the lock file is a violation**: with a reader that unlinks `.status.lock` after its read,
a schedule exists in which a read observes the torn table - the invariant of `C12_no_torn_read` is gone. -/
theorem C12_unlink_breaks_exclusion :
    Lock.File.torn ∈ (Lock.runU { s := Lock.init, gone := false } Lock.tornSchedule).s.reads := by decide


section rows
open MaestroVerif.Dag

/-- **the status table has one row per reachable instance**: `status_subtree` - the order in which
`write_status` emits the rows - lists exactly the nodes reachable from `_source`, other than
`_source`, each once, for every well-formed graph -/
theorem C12_rows_are_the_reachable_instances (g : Dag) (wf : WF g) :
    ∃ l, statusOrder g = some l ∧ l.Nodup ∧ ∀ x, x ∈ l ↔ (Reach g 0 x ∧ x ≠ 0) := by
  cases h : bfs g 0 with
  | none => exact absurd h (bfs_fuel g wf 0)
  | some l =>
    obtain ⟨h1, h2⟩ := bfs_spec g 0 h
    refine ⟨l.filter (· != 0), by simp [statusOrder, h], h1.filter _, ?_⟩
    intro x
    simp only [List.mem_filter, h2, bne_iff_ne, ne_eq]

/-- **… and that is every instance** when every node hangs below `_source` (what `Study.stage`
builds: a step without dependencies is connected to `_source`, C08) -/
theorem C12_one_row_per_instance (g : Dag) (wf : WF g) (h0 : 0 ∈ g.nodes)
    (hreach : ∀ x, x ∈ g.nodes → Reach g 0 x) :
    ∃ l, statusOrder g = some l ∧ l.Nodup ∧ ∀ x, x ∈ l ↔ (x ∈ g.nodes ∧ x ≠ 0) := by
  obtain ⟨l, h1, h2, h3⟩ := C12_rows_are_the_reachable_instances g wf
  refine ⟨l, h1, h2, fun x => ?_⟩
  rw [h3]
  constructor
  · rintro ⟨hr, hx⟩; exact ⟨reach_in_nodes wf hr h0, hx⟩
  · rintro ⟨hn, hx⟩; exact ⟨hreach x hn, hx⟩

/-! non-vacuity: a diamond below `_source` -/
example : statusOrder { nodes := [0, 1, 2, 3, 4], adj := fun x => if x = 0 then [1, 2] else if x = 1 then [3] else if x = 2 then [3] else if x = 3 then [4] else [] } = some [1, 2, 3, 4] := by
  decide +kernel

end rows

end MaestroVerif.C12
