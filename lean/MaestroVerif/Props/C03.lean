import MaestroVerif.Model.Exec

/-! # C03 — The number of in-flight jobs never exceeds the throttle (theorems are being added) -/
namespace MaestroVerif.C03
open MaestroVerif.Exec MaestroVerif.Gen

theorem C03_init_not_canceled (cfg : Cfg) : (init cfg).isCanceled = false := rfl

end MaestroVerif.C03
