import MaestroVerif.Lemmas.ExecDemo

/-!
# C03 — The number of in-flight jobs never exceeds the throttle

`live` is the ghost ledger of scheduler jobs (added when a scheduler submission
returns OK, removed when a terminal state is answered for the job) and `peak`
the maximum of its size over *every instant* of the history (it is updated at
each change of the ledger, inside a poll, not only at poll boundaries).
-/
namespace MaestroVerif.C03
open MaestroVerif.Exec MaestroVerif.Gen

/-- **At no moment were more than `throttle` jobs live.** -/
theorem C03_throttle {cfg : Cfg} (wf : WFCfg' cfg) {g : G} (h : Reachable cfg g)
    (ht : 0 < cfg.throttle) : g.peak ≤ cfg.throttle :=
  (invAll_reachable wf h).b.peak ht

/-- the ledger and the tracking agree: the live jobs are exactly the jobs of
the in-progress steps, one per step -/
theorem C03_live_eq_in_progress {cfg : Cfg} (wf : WFCfg' cfg) {g : G} (h : Reachable cfg g) :
    (∀ x, x ∈ g.live ↔ x ∈ g.inProgress) ∧ g.live.Nodup ∧ g.inProgress.Nodup ∧
      g.live.length = g.inProgress.length := by
  have b := (invAll_reachable wf h).b
  exact ⟨b.liveEq, b.liveN, b.ipN, length_eq_of_nodup b.liveN b.ipN b.liveEq⟩

theorem C03_tracked_le_throttle {cfg : Cfg} (wf : WFCfg' cfg) {g : G} (h : Reachable cfg g)
    (ht : 0 < cfg.throttle) : g.live.length ≤ cfg.throttle := by
  have := (C03_live_eq_in_progress wf h).2.2.2
  have := (invAll_reachable wf h).b.thr ht
  omega

/-- With no throttle every step in the ready queue is taken out of it in the
same poll (`available` is the whole queue). -/
theorem C03_unthrottled_takes_all (cfg : Cfg) (g : G) (h0 : cfg.throttle = 0) :
    available cfg g = g.ready.length := by
  simp [available, h0]

/-! non-vacuity: in the demo history the throttle (2) is reached exactly -/
example : 0 < demoCfg.throttle ∧ (run demoCfg demoOps).peak = 2 ∧
    (run demoCfg demoOps).peak ≤ demoCfg.throttle :=
  ⟨by decide, demo_state.2.2.2.2.1, C03_throttle demo_wf demo_reachable (by decide)⟩

end MaestroVerif.C03
