import MaestroVerif.Model.Exec

/-! # C06 — Timed-out steps are restarted only as configured and within budget (theorems are being added) -/
namespace MaestroVerif.C06
open MaestroVerif.Exec MaestroVerif.Gen

theorem C06_init_not_canceled (cfg : Cfg) : (init cfg).isCanceled = false := rfl

end MaestroVerif.C06
