import MaestroVerif.Lemmas.ExecDemo

/-!
# C06 — Timed-out steps are restarted only as configured and within budget
-/
namespace MaestroVerif.C06
open MaestroVerif.Exec MaestroVerif.Gen

/-- **The restart count never exceeds a positive restart limit** (0 = unlimited). -/
theorem C06_budget {cfg : Cfg} {g : G} (h : Reachable cfg g) (i : Nat) (hl : 0 < cfg.rlimit i) :
    g.restarts i ≤ cfg.rlimit i :=
  budget_reachable h i hl

/-- **The restart script is only ever used for a step that declares a restart
command** (`restartOk` is the history variable set at every launch decision). -/
theorem C06_restart_only_with_cmd {cfg : Cfg} (wf : WFCfg' cfg) {g : G} (h : Reachable cfg g) :
    g.restartOk = true :=
  (invAll_reachable wf h).b.restartOk

/-- A report other than TIMEDOUT never changes a restart counter and never
launches with the restart script: the only call of `_execute_record(restart=True)`
is in the TIMEDOUT branch, *after* the timed-out job was reported, guarded by
the restart command, the budget and the cancel flag. -/
theorem C06_restart_after_timeout (cfg : Cfg) (g : G) (i : Nat) (st : Option State)
    (hne : st ≠ some .TIMEDOUT) :
    (report cfg g i st).restarts = g.restarts ∧ (report cfg g i st).log = g.log := by
  cases st with
  | none => simp [report, terminal]
  | some s => cases s <;> first | (exact absurd rfl hne) | simp [report, terminal, setStatus]

/-- The TIMEDOUT branch, spelled out: restart (counter + 1, restart script)
exactly when the step has a restart command, no cancel was requested and the
budget allows it; otherwise the step leaves the tracking, its sub-tree is queued
for the failure sweep and nothing is submitted. -/
theorem canConsume_iff (cfg : Cfg) (g : G) (i : Nat) :
    canConsumeRestart cfg g i = true ↔ (cfg.rlimit i = 0 ∨ g.restarts i < cfg.rlimit i) := by
  unfold canConsumeRestart
  rw [Bool.or_eq_true, beq_iff_eq, decide_eq_true_iff]

theorem C06_timedout_decision {cfg : Cfg} (wf : WFCfg cfg) (g : G) (i : Nat) :
    (cfg.hasRestart i = true → g.isCanceled = false →
        (cfg.rlimit i = 0 ∨ g.restarts i < cfg.rlimit i) →
      report cfg g i (some .TIMEDOUT) =
        executeRecord cfg { setStatus { g with live := rem i g.live } i .TIMEDOUT with
          restarts := upd g.restarts i (g.restarts i + 1) } i true) ∧
    ((cfg.hasRestart i = false ∨ g.isCanceled = true ∨
        (cfg.rlimit i ≠ 0 ∧ ¬ g.restarts i < cfg.rlimit i)) →
      (report cfg g i (some .TIMEDOUT)).log = g.log ∧
      i ∉ (report cfg g i (some .TIMEDOUT)).inProgress ∧
      (report cfg g i (some .TIMEDOUT)).restarts = g.restarts ∧
      (report cfg g i (some .TIMEDOUT)).status i = .TIMEDOUT ∧
      (i ∈ (report cfg g i (some .TIMEDOUT)).failed ∨ i ∈ (report cfg g i (some .TIMEDOUT)).cleanup) ∧
      ∀ x, x ∈ subtree cfg i → x ≠ i → x ∈ (report cfg g i (some .TIMEDOUT)).cleanup) := by
  constructor
  · intro h1 h2 h3
    have hcan : canConsumeRestart cfg (setStatus { g with live := rem i g.live } i .TIMEDOUT) i = true := by
      rw [canConsume_iff]; simpa [setStatus] using h3
    simp only [report, terminal, ↓reduceIte]
    rw [if_pos (by simp [h1, h2]), if_pos hcan]
    rfl
  · intro h
    simp only [report, terminal, ↓reduceIte]
    by_cases hg : (cfg.hasRestart i && !g.isCanceled) = true
    · simp only [hg, ↓reduceIte]
      have hcan : canConsumeRestart cfg (setStatus { g with live := rem i g.live } i .TIMEDOUT) i = false := by
        simp only [Bool.and_eq_true, Bool.not_eq_eq_eq_not, Bool.not_true] at hg
        rcases h with h | h | h
        · rw [hg.1] at h; cases h
        · rw [hg.2] at h; cases h
        · cases hcc : canConsumeRestart cfg (setStatus { g with live := rem i g.live } i .TIMEDOUT) i with
          | false => rfl
          | true =>
            exfalso
            rw [canConsume_iff] at hcc
            simp only [setStatus] at hcc
            rcases hcc with h' | h'
            · exact h.1 h'
            · exact h.2 h' 
      simp only [hcan, Bool.false_eq_true, ↓reduceIte]
      refine ⟨rfl, by simp, rfl, by simp [setStatus], Or.inr ?_, ?_⟩
      · simp [self_mem_subtree wf i]
      · intro x hx _; simp [hx]
    · simp only [hg, Bool.false_eq_true, ↓reduceIte]
      refine ⟨rfl, by simp [setStatus], rfl, by simp [setStatus], Or.inl (by simp), ?_⟩
      intro x hx hxi; simp [hx, hxi]

/-! non-vacuity: in the demo history step 2 (limit 1) was restarted once -/
example : 0 < demoCfg.rlimit 2 ∧ (run demoCfg demoOps).restarts 2 = 1 ∧
    (run demoCfg demoOps).restartOk = true :=
  ⟨by decide, demo_state.2.2.1, C06_restart_only_with_cmd demo_wf demo_reachable⟩

end MaestroVerif.C06
