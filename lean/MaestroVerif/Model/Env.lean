import MaestroVerif.Model.Subst

/-!
# Model of `StudyEnvironment` (maestrowf/datastructures/core/studyenvironment.py)

`add` files every item: dependencies by name; a `Variable` as a *label* when its
value is a string containing a token character registered by an earlier
substitution, otherwise as a *substitution*, which registers its own token
character.  `apply_environment` runs one `str.replace` pass per label, then per
dependency, then per substitution, each in insertion order.  A repeated name is
refused (`ValueError`).  All variables of a specification carry the token
character `$`.
-/
namespace MaestroVerif.Env
open MaestroVerif.Subst

inductive Item
  /-- `Variable(name, value)`: `value` is `str(value)`, `isStr` tells whether it was a string -/
  | var (name value : Str) (isStr : Bool)
  /-- `PathDependency(name, path)` -/
  | dep (name path : Str)

structure Env where
  labels     : List (Str × Str)
  deps       : List (Str × Str)
  subs       : List (Str × Str)
  registered : Bool            -- `'$' in self._tokens`
  names      : List Str        -- `_names`

def empty : Env := { labels := [], deps := [], subs := [], registered := false, names := [] }

def dollar : Str := ['$']

def Env.addDep (e : Env) (n p : Str) : Option Env :=
  if e.names.contains n then none
  else some { e with deps := e.deps ++ [(n, p)], names := e.names ++ [n] }

def Env.addVar (e : Env) (n v : Str) (isStr : Bool) : Option Env :=
  if e.names.contains n then none
  else if isStr && e.registered && occurs dollar v then
    some { e with labels := e.labels ++ [(n, v)], names := e.names ++ [n] }
  else
    some { e with subs := e.subs ++ [(n, v)], registered := true, names := e.names ++ [n] }

/-- `StudyEnvironment.add`; `none` = `ValueError` (duplicate name) -/
def Env.add (e : Env) : Item → Option Env
  | .dep n p => e.addDep n p
  | .var n v isStr => e.addVar n v isStr

def addAll (items : List Item) : Option Env :=
  items.foldl (fun acc it => acc.bind (·.add it)) (some empty)

/-- one `substitute` pass per entry, in order -/
def pass (table : List (Str × Str)) (item : Str) : Str :=
  table.foldl (fun s kv => replaceAll s (tok kv.1) kv.2) item

/-- `apply_environment`: labels, then dependencies, then substitutions -/
def Env.apply (e : Env) (item : Str) : Str :=
  if item.isEmpty then item else pass e.subs (pass e.deps (pass e.labels item))

end MaestroVerif.Env
