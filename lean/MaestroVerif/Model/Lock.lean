/-
Model of the writer / reader / lock protocol around `status.csv`
(`ExecutionGraph.write_status`, `Conductor.get_status`): an interleaving
semantics of one (repeating) writer and one (repeating) reader over a shared
file and an exclusive lock.  What `filelock.FileLock` and the OS provide
(mutual exclusion; `acquire` blocks while the lock is held, or times out) is the
trusted assumption built into `step`.
-/
namespace MaestroVerif.Lock

inductive Actor | writer | reader
  deriving DecidableEq, Repr

/-- content of `status.csv`: absent, a complete table (its version number), or
truncated / partially written -/
inductive File
  | absent
  | complete (v : Nat)
  | torn
  deriving DecidableEq, Repr

/-- program counters.
writer: 0 acquire → 1 open("w+") (truncates) → 2 write → 3 close → 4 release → 0
reader: 0 exists? → 1 acquire → 2 open("r") → 3 read → 4 close → 5 release → 0 -/
structure S where
  file    : File
  holder  : Option Actor
  wpc     : Nat
  rpc     : Nat
  version : Nat            -- the table the writer is writing
  reads   : List File      -- what completed reads observed
  deriving Repr

def init : S := { file := .absent, holder := none, wpc := 0, rpc := 0, version := 0, reads := [] }

inductive Choice
  | go                     -- the normal step
  | timeout                -- `acquire` gives up (`except Timeout: pass`)
  deriving DecidableEq, Repr

/-- one step of `a`; `none` = the step is blocked (lock held by the other) -/
def step (s : S) (a : Actor) (c : Choice) : Option S :=
  match a with
  | .writer =>
    match s.wpc with
    | 0 => match c with
      | .timeout => some { s with version := s.version + 1 }          -- write skipped
      | .go => if s.holder.isSome then none else some { s with holder := some .writer, wpc := 1 }
    | 1 => some { s with file := .torn, wpc := 2 }
    | 2 => some { s with file := .complete (s.version + 1), wpc := 3 }
    | 3 => some { s with wpc := 4 }
    | _ => some { s with holder := none, wpc := 0, version := s.version + 1 }
  | .reader =>
    match s.rpc with
    | 0 => if s.file == .absent then some s else some { s with rpc := 1 }
    | 1 => match c with
      | .timeout => some { s with rpc := 0 }                           -- returns {}
      | .go => if s.holder.isSome then none else some { s with holder := some .reader, rpc := 2 }
    | 2 => some { s with rpc := 3 }
    | 3 => some { s with reads := s.reads ++ [s.file], rpc := 4 }
    | 4 => some { s with rpc := 5 }
    | _ => some { s with holder := none, rpc := 0 }

/-- run a schedule; blocked steps are skipped (the actor simply waits) -/
def run (s : S) : List (Actor × Choice) → S
  | [] => s
  | (a, c) :: rest =>
    match step s a c with
    | some s' => run s' rest
    | none => run s rest

/-- the operation order of one complete write / read, as recorded from the real
code by the harness (protocol correspondence) -/
def writerTrace : List String := ["acquire", "open:w+", "write", "close", "release"]
def readerTrace : List String := ["exists", "acquire", "open:r", "read", "close", "release"]

/-- … and when `acquire` times out (`Choice.timeout`): the writer skips the write, the reader
returns an empty table; neither touches the file -/
def writerTimeoutTrace : List String := ["timeout"]
def readerTimeoutTrace : List String := ["exists", "timeout"]

/-! ### a reader that removes the lock file (not what the code does: what a change might do) -/

/-- The same protocol with a reader that removes the lock file after releasing it (reader: … → 5 release →
6 unlink → 0).  `gone` = the file the current holder locked has been unlinked: the next `acquire` creates a
fresh file and succeeds although the lock is held. -/
structure SU where
  s    : S
  gone : Bool

def stepU (u : SU) (a : Actor) (c : Choice) : Option SU :=
  let s := u.s
  let free := !s.holder.isSome || u.gone
  match a with
  | .writer =>
    match s.wpc with
    | 0 => match c with
      | .timeout => some { u with s := { s with version := s.version + 1 } }
      | .go => if free then some { s := { s with holder := some .writer, wpc := 1 }, gone := false } else none
    | 1 => some { u with s := { s with file := .torn, wpc := 2 } }
    | 2 => some { u with s := { s with file := .complete (s.version + 1), wpc := 3 } }
    | 3 => some { u with s := { s with wpc := 4 } }
    | _ => some { u with s := { s with holder := if s.holder == some .writer then none else s.holder, wpc := 0,
                                       version := s.version + 1 } }
  | .reader =>
    match s.rpc with
    | 0 => if s.file == .absent then some u else some { u with s := { s with rpc := 1 } }
    | 1 => match c with
      | .timeout => some { u with s := { s with rpc := 0 } }
      | .go => if free then some { s := { s with holder := some .reader, rpc := 2 }, gone := false } else none
    | 2 => some { u with s := { s with rpc := 3 } }
    | 3 => some { u with s := { s with reads := s.reads ++ [s.file], rpc := 4 } }
    | 4 => some { u with s := { s with rpc := 5 } }
    | 5 => some { u with s := { s with holder := if s.holder == some .reader then none else s.holder, rpc := 6 } }
    | _ => some { s := { s with rpc := 0 }, gone := true }       -- os.remove(lock file)

def runU (u : SU) : List (Actor × Choice) → SU
  | [] => u
  | (a, c) :: rest =>
    match stepU u a c with
    | some u' => runU u' rest
    | none => runU u rest

/-- one write, one read that ends with the release; then the writer takes the lock for the next write and
truncates the table, the reader unlinks the lock file, comes back, gets a fresh lock and reads -/
def tornSchedule : List (Actor × Choice) :=
  List.replicate 5 (.writer, .go) ++ List.replicate 6 (.reader, .go) ++
  [(.writer, .go), (.writer, .go), (.reader, .go)] ++ List.replicate 4 (.reader, .go)

end MaestroVerif.Lock
