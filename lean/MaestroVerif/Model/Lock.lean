/-
Model of the writer / reader / lock protocol around `status.csv`
(`ExecutionGraph.write_status`, `Conductor.get_status`): an interleaving
semantics of one (repeating) writer and one (repeating) reader over a shared
file and an exclusive lock.  What `filelock.FileLock` and the OS provide
(mutual exclusion; `acquire` blocks while the lock is held, or times out) is the
trusted assumption built into `step`.
-/
namespace MaestroVerif.Lock

inductive Actor | writer | reader
  deriving DecidableEq, Repr

/-- content of `status.csv`: absent, a complete table (its version number), or
truncated / partially written -/
inductive File
  | absent
  | complete (v : Nat)
  | torn
  deriving DecidableEq, Repr

/-- program counters.
writer: 0 acquire → 1 open("w+") (truncates) → 2 write → 3 close → 4 release → 0
reader: 0 exists? → 1 acquire → 2 open("r") → 3 read → 4 close → 5 release → 0 -/
structure S where
  file    : File
  holder  : Option Actor
  wpc     : Nat
  rpc     : Nat
  version : Nat            -- the table the writer is writing
  reads   : List File      -- what completed reads observed
  deriving Repr

def init : S := { file := .absent, holder := none, wpc := 0, rpc := 0, version := 0, reads := [] }

inductive Choice
  | go                     -- the normal step
  | timeout                -- `acquire` gives up (`except Timeout: pass`)
  deriving DecidableEq, Repr

/-- one step of `a`; `none` = the step is blocked (lock held by the other) -/
def step (s : S) (a : Actor) (c : Choice) : Option S :=
  match a with
  | .writer =>
    match s.wpc with
    | 0 => match c with
      | .timeout => some { s with version := s.version + 1 }          -- write skipped
      | .go => if s.holder.isSome then none else some { s with holder := some .writer, wpc := 1 }
    | 1 => some { s with file := .torn, wpc := 2 }
    | 2 => some { s with file := .complete (s.version + 1), wpc := 3 }
    | 3 => some { s with wpc := 4 }
    | _ => some { s with holder := none, wpc := 0, version := s.version + 1 }
  | .reader =>
    match s.rpc with
    | 0 => if s.file == .absent then some s else some { s with rpc := 1 }
    | 1 => match c with
      | .timeout => some { s with rpc := 0 }                           -- returns {}
      | .go => if s.holder.isSome then none else some { s with holder := some .reader, rpc := 2 }
    | 2 => some { s with rpc := 3 }
    | 3 => some { s with reads := s.reads ++ [s.file], rpc := 4 }
    | 4 => some { s with rpc := 5 }
    | _ => some { s with holder := none, rpc := 0 }

/-- run a schedule; blocked steps are skipped (the actor simply waits) -/
def run (s : S) : List (Actor × Choice) → S
  | [] => s
  | (a, c) :: rest =>
    match step s a c with
    | some s' => run s' rest
    | none => run s rest

/-- the operation order of one complete write / read, as recorded from the real
code by the harness (protocol correspondence) -/
def writerTrace : List String := ["acquire", "open:w+", "write", "close", "release"]
def readerTrace : List String := ["exists", "acquire", "open:r", "read", "close", "release"]

/-- … and when `acquire` times out (`Choice.timeout`): the writer skips the write, the reader
returns an empty table; neither touches the file -/
def writerTimeoutTrace : List String := ["timeout"]
def readerTimeoutTrace : List String := ["exists", "timeout"]

end MaestroVerif.Lock
