/-
Model of the status table I/O:
* writer: the text `ExecutionGraph.write_status` produces — fields joined by
  `,`, rows joined by `\n`, header first, no trailing newline;
* reader: `utils.csvtable_to_dict` — `readlines()` (text mode: `\r` and `\r\n`
  arrive as `\n`), header `strip("\n").split(",")`, every further line
  `split(",")`, field `i` appended (after `strip("\n")`) to the column of header
  `i`; a row with more fields than the header raises `KeyError`.
-/
namespace MaestroVerif.Csv

abbrev Str := List Char

/-- `sep.join(parts)` -/
def join (sep : Str) : List Str → Str
  | [] => []
  | [x] => x
  | x :: y :: rest => x ++ sep ++ join sep (y :: rest)

/-- `s.split(sep)` for a one-character separator -/
def splitOn (sep : Char) : Str → List Str
  | [] => [[]]
  | c :: cs =>
    match splitOn sep cs with
    | [] => [[]]
    | t :: ts => if c == sep then [] :: t :: ts else (c :: t) :: ts

/-- the text `write_status` writes -/
def writeCsv (header : List Str) (rows : List (List Str)) : Str :=
  join ['\n'] ((header :: rows).map (join [',']))

/-- universal-newline translation done by text-mode `open(..., "r")` -/
def translateNewlines : Str → Str
  | [] => []
  | '\r' :: '\n' :: cs => '\n' :: translateNewlines cs
  | '\r' :: cs => '\n' :: translateNewlines cs
  | c :: cs => c :: translateNewlines cs

/-- `readlines()`: split after every `\n`, keeping it; no empty last line -/
def readlinesAux : Str → Str → List Str
  | [], cur => if cur.isEmpty then [] else [cur.reverse]
  | '\n' :: cs, cur => ('\n' :: cur).reverse :: readlinesAux cs []
  | c :: cs, cur => readlinesAux cs (c :: cur)

def readlines (s : Str) : List Str := readlinesAux s []

/-- `s.strip("\n")` -/
def stripNl (s : Str) : Str :=
  ((s.dropWhile (· == '\n')).reverse.dropWhile (· == '\n')).reverse

/-- the ordered dict of columns -/
abbrev Table := List (Str × List Str)

inductive Err | keyError | indexError
  deriving DecidableEq, Repr

/-- `table[item] = []` for every header item (a repeated title re-initialises) -/
def initTable (header : List Str) : Table :=
  header.foldl (fun t h => if t.any (·.1 == h) then t.map (fun e => if e.1 == h then (h, []) else e)
                           else t ++ [(h, [])]) []

def appendCol (t : Table) (key : Str) (v : Str) : Table :=
  t.map (fun e => if e.1 == key then (e.1, e.2 ++ [v]) else e)

/-- one data line: `for i in range(len(_)): table[indices[i]].append(_[i].strip("\n"))`;
`indices[i]` raises `KeyError` at the first field beyond the header (the fields
before it have been appended by then, but the exception discards the table) -/
def addLine (header : List Str) (t : Table) (line : Str) : Except Err Table :=
  let fields := splitOn ',' line
  if header.length < fields.length then .error .keyError
  else .ok ((header.zip fields).foldl (fun t hf => appendCol t hf.1 (stripNl hf.2)) t)

def addLines (header : List Str) : List Str → Table → Except Err Table
  | [], t => .ok t
  | l :: ls, t =>
    match addLine header t l with
    | .ok t' => addLines header ls t'
    | .error e => .error e

/-- `csvtable_to_dict(fstream)` on the file content -/
def readCsv (content : Str) : Except Err Table :=
  match readlines (translateNewlines content) with
  | [] => .error .indexError            -- `lines.pop(0)` on an empty file
  | h :: ls =>
    let header := splitOn ',' (stripNl h)
    addLines header ls (initTable header)

end MaestroVerif.Csv
