/-
Model of `maestrowf/datastructures/core/executiongraph.py`:
`_StepRecord` (status, job ids, restart counter, `mark_restart`), `_execute_record`
(script generation, dry-run return, submission retry loop, local completion,
failed-submission sweep), `execute_ready_steps` (status query, every report
branch, the two sweeps, the staging loop, slot arithmetic, the launch loop),
`_check_study_completion`, `check_study_status`, `cancel_study`.

The model mirrors the code *with* the repairs committed as "fix:" (D1 hardware
failure releases its slot, D2 failed restart submission leaves `in_progress`,
D3 no restart after a cancel request).

Import-free apart from the generated enum definitions.  Step instances are
`Nat`s: `0` is `_source`, `1..n` are the instances in `values` insertion order.
Python `set`s are duplicate-free lists (insertion at the end); the only places
where Python's set iteration order is observable are the argument lists of
`check_jobs` / `cancel_jobs`, which the driver prints sorted.

The environment is explicit: `Cfg.subOk k` is the outcome of the `k`-th
submission (scheduler `submit` or local execution) and `PollIn` is what
`check_jobs` answered (`reports` in the order of the returned dict).
-/
import MaestroVerif.Gen.Enums
import MaestroVerif.Model.Dag

namespace MaestroVerif.Exec
open MaestroVerif.Gen

structure Cfg where
  n          : Nat
  dag        : Dag.Dag            -- adjacency table (children lists, in order)
  parents    : Nat → List Nat     -- initial `_dependencies`
  sched      : Nat → Bool         -- `to_be_scheduled` as decided by `write_script`
  hasRestart : Nat → Bool         -- `can_restart` (a restart script exists)
  rlimit     : Nat → Nat          -- `restart_limit` (0 = unlimited)
  throttle   : Nat
  attempts   : Nat
  dry        : Bool
  subOk      : Nat → Bool         -- outcome of the k-th submission

inductive Ev
  | check (steps : List Nat)                              -- `check_jobs` for the latest jobs of these steps
  | gen (i : Nat)                                         -- `write_script` for step `i`
  | submit (i : Nat) (restart ok : Bool) (job : Nat)      -- scheduler `submit`
  | localRun (i : Nat) (restart ok : Bool) (job : Nat)    -- local execution
  | cancelJobs (steps : List Nat)                         -- `cancel_jobs`
  deriving DecidableEq, Repr

structure G where
  status     : Nat → State
  jobs       : Nat → List Nat
  restarts   : Nat → Nat
  deps       : Nat → List Nat
  completed  : List Nat
  inProgress : List Nat
  failed     : List Nat
  cancelled  : List Nat
  ready      : List Nat
  isCanceled : Bool
  subCount   : Nat
  cleanup    : List Nat      -- `cleanup_steps` (poll-local, `[]` between polls)
  cancelQ    : List Nat      -- `cancel_steps`  (poll-local, `[]` between polls)
  -- ghost (history) variables: they record what the *scheduler* was asked and
  -- answered; no decision of the model reads them
  log        : List Ev       -- every externally visible action so far
  live       : List Nat      -- steps that have a live scheduler job: submitted OK, not yet answered terminal
  peak       : Nat           -- the largest number of simultaneously live jobs so far
  depsOk     : Bool          -- every launch so far happened with all parents complete
  freshOk    : Bool          -- no launch so far concerned a step that was already resolved
  cancelOk   : Bool          -- no launch so far happened after a cancel request
  restartOk  : Bool          -- the restart script was only ever used for steps that have one
  oneJob     : Bool          -- no step ever got a job while it still had a live one

def upd {α} (f : Nat → α) (i : Nat) (v : α) : Nat → α := fun x => if x = i then v else f x

/-- `set.add` -/
def ins (x : Nat) (l : List Nat) : List Nat := if x ∈ l then l else l ++ [x]

/-- `set.remove` / `set.discard` (sets are duplicate-free lists) -/
def rem (x : Nat) (l : List Nat) : List Nat := l.filter (fun y => y != x)

/-- `set.update` -/
def insAll (xs : List Nat) (l : List Nat) : List Nat := xs.foldl (fun l x => ins x l) l

def init (cfg : Cfg) : G :=
  { status := fun _ => .INITIALIZED, jobs := fun _ => [], restarts := fun _ => 0,
    deps := cfg.parents, completed := [0], inProgress := [], failed := [], cancelled := [],
    ready := [], isCanceled := false, subCount := 0, cleanup := [], cancelQ := [], log := [],
    live := [], peak := 0, depsOk := true, freshOk := true, cancelOk := true, restartOk := true,
    oneJob := true }

def emit (g : G) (e : Ev) : G := { g with log := g.log ++ [e] }

def setStatus (g : G) (i : Nat) (s : State) : G := { g with status := upd g.status i s }

/-- `self.bfs_subtree(name)[0]` -/
def subtree (cfg : Cfg) (i : Nat) : List Nat := (Dag.bfs cfg.dag i).getD []

/-- one iteration of the submission retry loop: `record.execute(adapter)` or
`record.generate_script(..); record.restart(adapter)`; returns whether the
submission succeeded -/
def attempt (cfg : Cfg) (i : Nat) (restart : Bool) (g : G) : G × Bool :=
  -- restart: the script is regenerated on every attempt; otherwise `mark_submitted`
  let g := if restart then emit g (.gen i) else setStatus g i .PENDING
  -- `_execute`: a local step is marked running before it is executed
  let g := if cfg.sched i then g else setStatus g i .RUNNING
  let ok := cfg.subOk g.subCount
  let job := g.subCount + 1
  let ev := if cfg.sched i then Ev.submit i restart ok job else Ev.localRun i restart ok job
  let g := emit { g with subCount := g.subCount + 1,
                         jobs := if ok then upd g.jobs i (g.jobs i ++ [job]) else g.jobs } ev
  -- ghost ledger: a successful scheduler submission creates a live job
  let g := if ok && cfg.sched i then
      { g with oneJob := g.oneJob && !(g.live.contains i), live := ins i g.live,
               peak := max g.peak (ins i g.live).length }
    else g
  (g, ok)

/-- `while retcode != SubmissionCode.OK and num_restarts < self._submission_attempts` -/
def submitLoop (cfg : Cfg) (i : Nat) (restart : Bool) : Nat → G → G × Bool
  | 0, g => (g, false)
  | k + 1, g =>
    let r := attempt cfg i restart g
    if r.2 then (r.1, true) else submitLoop cfg i restart k r.1

/-- the "anything dependent on this step now failed" loop -/
def failSubtree (cfg : Cfg) (g : G) (i : Nat) : G :=
  (subtree cfg i).foldl (fun g x => setStatus { g with failed := ins x g.failed } x .FAILED) g

/-- start of `_execute_record`: the ghost flags record whether, at the moment this
launch was decided, all parents were complete, the step was unresolved, no cancel
had been requested and a restart concerns a step with a restart command; the
script is generated unless this is a restart -/
def execPrep (cfg : Cfg) (g : G) (i : Nat) (restart : Bool) : G :=
  let g := { g with
    depsOk := g.depsOk && (cfg.parents i).all (fun p => g.completed.contains p),
    freshOk := g.freshOk &&
      !(g.completed.contains i || g.failed.contains i || g.cancelled.contains i),
    cancelOk := g.cancelOk && !g.isCanceled,
    restartOk := g.restartOk && (!restart || cfg.hasRestart i) }
  if restart then g else emit g (.gen i)

/-- `if self.dry_run: record.mark_end(State.DRYRUN); self.completed_steps.add(..); return` -/
def dryMark (g : G) (i : Nat) : G :=
  setStatus { g with completed := ins i g.completed } i .DRYRUN

/-- the part of `_execute_record` after the retry loop -/
def execFinish (cfg : Cfg) (g : G) (i : Nat) (ok : Bool) : G :=
  if ok then
    let g := { g with inProgress := ins i g.inProgress }
    if cfg.sched i then g
    else setStatus { g with completed := ins i g.completed,
                            inProgress := rem i g.inProgress } i .FINISHED
  else
    -- the step is no longer tracked (repair D2); everything dependent on it failed
    failSubtree cfg { g with inProgress := rem i g.inProgress } i

/-- `_execute_record(record, adapter, restart)` -/
def executeRecord (cfg : Cfg) (g : G) (i : Nat) (restart : Bool) : G :=
  let g := execPrep cfg g i restart
  if cfg.dry then dryMark g i
  else
    let r := submitLoop cfg i restart cfg.attempts g
    execFinish cfg r.1 i r.2

/-- `mark_restart`'s budget test -/
def canConsumeRestart (cfg : Cfg) (g : G) (i : Nat) : Bool :=
  cfg.rlimit i == 0 || g.restarts i < cfg.rlimit i

/-- one `name, status` entry of `job_status.items()` -/
def terminal : Option State → Bool
  | some .FINISHED | some .FAILED | some .TIMEDOUT | some .HWFAILURE | some .UNKNOWN
  | some .CANCELLED => true
  | _ => false

def report (cfg : Cfg) (g : G) (i : Nat) (st : Option State) : G :=
  -- ghost ledger: a terminal answer ends the job
  let g := if terminal st then { g with live := rem i g.live } else g
  match st with
  | some .FINISHED =>
    setStatus { g with completed := ins i g.completed, inProgress := rem i g.inProgress } i .FINISHED
  | some .RUNNING => setStatus g i .RUNNING
  | some .TIMEDOUT =>
    if cfg.hasRestart i && !g.isCanceled then
      let g := setStatus g i .TIMEDOUT
      if canConsumeRestart cfg g i then
        executeRecord cfg { g with restarts := upd g.restarts i (g.restarts i + 1) } i true
      else
        { g with inProgress := rem i g.inProgress, cleanup := insAll (subtree cfg i) g.cleanup }
    else
      let g := setStatus g i .TIMEDOUT
      { g with inProgress := rem i g.inProgress,
               cleanup := rem i (insAll (subtree cfg i) g.cleanup),
               failed := ins i g.failed }
  | some .HWFAILURE =>
    { g with inProgress := rem i g.inProgress, ready := g.ready ++ [i] }
  | some .FAILED =>
    setStatus { g with inProgress := rem i g.inProgress,
                       cleanup := insAll (subtree cfg i) g.cleanup } i .FAILED
  | some .UNKNOWN =>
    setStatus { g with inProgress := rem i g.inProgress,
                       cleanup := insAll (subtree cfg i) g.cleanup } i .UNKNOWN
  | some .CANCELLED =>
    setStatus { g with inProgress := rem i g.inProgress,
                       cancelQ := insAll (subtree cfg i) g.cancelQ } i .CANCELLED
  | _ => g

/-- "Let's handle all the failed steps in one go" + "dependent steps that need cancelling" -/
def sweeps (g : G) : G :=
  let g := g.cleanup.foldl (fun g x => setStatus { g with failed := ins x g.failed } x .FAILED) g
  let g := g.cancelQ.foldl (fun g x => setStatus { g with cancelled := ins x g.cancelled } x .CANCELLED) g
  { g with cleanup := [], cancelQ := [] }

/-- body of the staging loop for one key -/
def stageOne (g : G) (key : Nat) : G :=
  if key ∈ g.completed then g
  else if g.status key == .INITIALIZED then
    let d := (g.deps key).filter (fun x => !(g.completed.contains x))
    let g := { g with deps := upd g.deps key d }
    if d.isEmpty then
      if key ∈ g.ready then g else { g with ready := g.ready ++ [key] }
    else g
  else g

def stage (cfg : Cfg) (g : G) : G := (List.range (cfg.n + 1)).foldl stageOne g

def available (cfg : Cfg) (g : G) : Nat :=
  if cfg.throttle == 0 then g.ready.length
  else min (cfg.throttle - g.inProgress.length) g.ready.length

/-- the launch loop: `for i in range(0, _available)` -/
def launch (cfg : Cfg) : Nat → G → G
  | 0, g => g
  | k + 1, g =>
    match g.ready with
    | [] => g
    | i :: rest =>
      let g := { g with ready := rest }
      if g.isCanceled then
        launch cfg k (setStatus { g with cancelled := ins i g.cancelled } i .CANCELLED)
      else
        launch cfg k (executeRecord cfg g i false)

/-- `_check_study_completion` -/
def verdict (cfg : Cfg) (g : G) : StudyStatus :=
  if g.isCanceled && g.inProgress.isEmpty then .CANCELLED
  else if (List.range (cfg.n + 1)).all
      (fun k => g.completed.contains k || g.failed.contains k || g.cancelled.contains k) then
    if !g.cancelled.isEmpty then .CANCELLED
    else if !g.failed.isEmpty then .FAILURE
    else .FINISHED
  else .RUNNING

structure PollIn where
  code    : JobStatusCode
  reports : List (Nat × Option State)

inductive Ret
  | status (s : StudyStatus)
  | raised                      -- `RuntimeError("Job status check failed -- Aborting.")`
  deriving DecidableEq, Repr

/-- `execute_ready_steps` -/
def poll (cfg : Cfg) (g : G) (p : PollIn) : G × Ret :=
  let code := if cfg.dry then JobStatusCode.OK else p.code
  let g := if cfg.dry then g else emit g (.check g.inProgress)
  match code with
  | .ERROR => (g, .raised)
  | _ =>
    let g := match code with
      | .OK =>
        if cfg.dry then g
        else sweeps (p.reports.foldl (fun g r => report cfg g r.1 r.2) g)
      | _ => g
    let g := stage cfg g
    let g := launch cfg (available cfg g) g
    (g, .status (verdict cfg g))

/-- `cancel_study` -/
def cancel (g : G) : G :=
  { emit g (.cancelJobs g.inProgress) with isCanceled := true }

inductive Op
  | poll (p : PollIn)
  | cancel

def step (cfg : Cfg) (g : G) : Op → G
  | .poll p => (poll cfg g p).1
  | .cancel => cancel g

def run (cfg : Cfg) (ops : List Op) : G := ops.foldl (step cfg) (init cfg)

/-- exit code of `conductor` / `maestro run -fg`: `sys.exit(completion_status.value)` -/
def exitCode (s : StudyStatus) : Nat := s.toNat

end MaestroVerif.Exec
