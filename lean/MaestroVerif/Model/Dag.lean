/-
Model of `maestrowf/datastructures/dag.py` (class `DAG`).

Import-free, executable.  Names are `Nat`s (the driver maps strings to
indices).  `values` / `adjacency_table` (two `OrderedDict`s that always have the
same keys) become `nodes : List Nat` (insertion order) and a total function
`adj : Nat → List Nat` (`[]` outside `nodes`).

Every recursive walk of the Python code takes a `fuel` argument and returns
`none` when it runs out (Python: `RecursionError`); `Props/C14.lean` proves that
the fuel the public entry points pass (`|nodes| + 1`) never runs out.
-/
namespace MaestroVerif.Dag

structure Dag where
  nodes : List Nat
  adj   : Nat → List Nat

def empty : Dag := ⟨[], fun _ => []⟩

/-- `self.adjacency_table[s] = l` -/
def setAdj (g : Dag) (s : Nat) (l : List Nat) : Dag :=
  { g with adj := fun x => if x = s then l else g.adj x }

/-- `DAG.add_node` -/
def addNode (g : Dag) (n : Nat) : Dag :=
  if n ∈ g.nodes then g
  else { nodes := g.nodes ++ [n], adj := fun x => if x = n then [] else g.adj x }

/-! ### `detect_cycle` / `_detect_cycle` -/

structure DS where
  visited : List Nat
  rstack  : List Nat

/-- The `for c in self.adjacency_table[v]` loop of `_detect_cycle`, with the
recursive call abstracted as `visitF` (so that `visit` below is structurally
recursive on its fuel).  Returns `(cycleFound, state)`. -/
def dcChildren (visitF : Nat → DS → Option (Bool × DS)) (v : Nat) :
    List Nat → DS → Option (Bool × DS)
  | [], s => some (false, { s with rstack := s.rstack.erase v })
  | c :: cs, s =>
    if c ∉ s.visited then
      match visitF c s with
      | none => none
      | some (true, s') => some (true, s')
      | some (false, s') => dcChildren visitF v cs s'
    else if c ∈ s.rstack then some (true, s)
    else dcChildren visitF v cs s

/-- `_detect_cycle(v, visited, rstack)` -/
def dcVisit (g : Dag) : Nat → Nat → DS → Option (Bool × DS)
  | 0, _, _ => none
  | fuel + 1, v, s =>
    dcChildren (dcVisit g fuel) v (g.adj v)
      { visited := v :: s.visited, rstack := v :: s.rstack }

/-- the `for v in self.values` loop of `detect_cycle` -/
def dcLoop (g : Dag) (fuel : Nat) : List Nat → DS → Option Bool
  | [], _ => some false
  | v :: vs, s =>
    if v ∉ s.visited then
      match dcVisit g fuel v s with
      | none => none
      | some (true, _) => some true
      | some (false, s') => dcLoop g fuel vs s'
    else dcLoop g fuel vs s

/-- `DAG.detect_cycle`; `none` = recursion depth exhausted. -/
def detectCycle (g : Dag) : Option Bool :=
  dcLoop g (g.nodes.length + 1) g.nodes ⟨[], []⟩

/-! ### `add_edge`, `remove_edge` -/

inductive Outcome
  | ok            -- returned normally (edge added, or silently ignored)
  | valueError    -- `raise ValueError`
  | cycleError    -- `raise Exception("... crates a cycle.")`
  | outOfFuel     -- recursion limit (never happens, see C14_fuel_suffices)
  deriving DecidableEq, Repr

/-- `DAG.add_edge(src, dest)` (with the "fix: a refused cycle-creating edge no
longer stays in the DAG" repair: the edge is removed again before raising). -/
def addEdge (g : Dag) (s d : Nat) : Dag × Outcome :=
  if s = d then (g, .ok)
  else if s ∉ g.nodes then (g, .valueError)
  else if d ∉ g.nodes then (g, .ok)
  else if d ∈ g.adj s then (g, .ok)
  else
    let g' := setAdj g s (g.adj s ++ [d])
    match detectCycle g' with
    | none => (g', .outOfFuel)
    | some false => (g', .ok)
    | some true => (setAdj g' s ((g'.adj s).erase d), .cycleError)

/-- `DAG.remove_edge(src, dest)`; `list.remove` raises `ValueError` when the
element is absent. -/
def removeEdge (g : Dag) (s d : Nat) : Dag × Outcome :=
  if s ∉ g.nodes then (g, .ok)
  else if d ∉ g.nodes then (g, .ok)
  else if d ∈ g.adj s then (setAdj g s ((g.adj s).erase d), .ok)
  else (g, .valueError)

/-! ### `topological_sort` -/

structure TS where
  visited : List Nat
  stack   : List Nat      -- the deque, leftmost first

def tsChildren (visitF : Nat → TS → Option TS) : List Nat → TS → Option TS
  | [], s => some s
  | e :: es, s =>
    if e ∉ s.visited then
      match visitF e s with
      | none => none
      | some s' => tsChildren visitF es s'
    else tsChildren visitF es s

/-- `_topological_sort(v, visited, stack)` -/
def tsVisit (g : Dag) : Nat → Nat → TS → Option TS
  | 0, _, _ => none
  | fuel + 1, v, s =>
    match tsChildren (tsVisit g fuel) (g.adj v) { s with visited := v :: s.visited } with
    | none => none
    | some s' => some { s' with stack := v :: s'.stack }

def tsLoop (g : Dag) (fuel : Nat) : List Nat → TS → Option TS
  | [], s => some s
  | v :: vs, s =>
    if v ∉ s.visited then
      match tsVisit g fuel v s with
      | none => none
      | some s' => tsLoop g fuel vs s'
    else tsLoop g fuel vs s

/-- `DAG.topological_sort` -/
def topoSort (g : Dag) : Option (List Nat) :=
  (tsLoop g (g.nodes.length + 1) g.nodes ⟨[], []⟩).map (·.stack)

/-! ### `bfs_subtree` -/

/-- the inner `for node in self.adjacency_table[root]` loop: returns the new
`(queue, path)` -/
def bfsScan : List Nat → List Nat → List Nat → List Nat × List Nat
  | [], q, p => (q, p)
  | c :: cs, q, p =>
    if c ∈ p then bfsScan cs q p else bfsScan cs (q ++ [c]) (p ++ [c])

/-- the `while queue` loop -/
def bfsLoop (g : Dag) : Nat → List Nat → List Nat → Option (List Nat)
  | _, [], p => some p
  | 0, _ :: _, _ => none
  | fuel + 1, root :: q, p =>
    let r := bfsScan (g.adj root) q p
    bfsLoop g fuel r.1 r.2

/-- `DAG.bfs_subtree(src)[0]` (the path; the parent map is not modelled – no
caller uses it). -/
def bfs (g : Dag) (src : Nat) : Option (List Nat) :=
  bfsLoop g (g.nodes.length + 1) [src] [src]

/-- `ExecutionGraph.status_subtree` (the default `bfs` order): the walk from `_source` (node 0)
without `_source` itself - the rows of the status table, in order -/
def statusOrder (g : Dag) : Option (List Nat) := (bfs g 0).map (·.filter (· != 0))

/-! ### `dfs_subtree` (with the visited-set repair) -/

structure FS where
  visited : List Nat
  path    : List Nat      -- in listing order

def dfsChildren (visitF : Nat → List Nat → Option (List Nat × List Nat)) :
    List Nat → List Nat → List Nat → Option (List Nat × List Nat)
  -- children, visited, path-so-far ↦ (visited, path)
  | [], vis, path => some (vis, path)
  | c :: cs, vis, path =>
    if c ∈ vis then dfsChildren visitF cs vis path
    else
      match visitF c vis with
      | none => none
      | some (vis', sub) => dfsChildren visitF cs vis' (path ++ sub)

/-- `dfs_subtree(src, par, visited)`: returns `(visited, path)` -/
def dfsVisit (g : Dag) : Nat → Nat → List Nat → Option (List Nat × List Nat)
  | 0, _, _ => none
  | fuel + 1, v, vis => dfsChildren (dfsVisit g fuel) (g.adj v) (v :: vis) [v]

def dfs (g : Dag) (src : Nat) : Option (List Nat) :=
  (dfsVisit g (g.nodes.length + 1) src []).map (·.2)

/-! ### operation sequences (used by the driver and by C14) -/

inductive Op
  | addNode (n : Nat)
  | addEdge (s d : Nat)
  | removeEdge (s d : Nat)
  deriving Repr

def apply (g : Dag) : Op → Dag × Outcome
  | .addNode n => (addNode g n, .ok)
  | .addEdge s d => addEdge g s d
  | .removeEdge s d => removeEdge g s d

def run (g : Dag) (ops : List Op) : Dag := ops.foldl (fun g op => (apply g op).1) g

end MaestroVerif.Dag
