/-
Model of `Conductor.monitor_study` (maestrowf/conductor.py): the loop around the execution
graph.  One iteration: look for the cancel lock file; if it is there take its file lock, call
`cancel_study`, remove the file (a lock time-out leaves the request for the next iteration);
call `execute_ready_steps`; pickle the graph; write the status table; sleep while RUNNING.
A `RuntimeError` of `execute_ready_steps` (failed status query) leaves the loop at once.

The environment of an iteration is explicit: whether the cancel lock file exists, whether its
file lock can be had, and what the scheduler answers.  The graph is `Model/Exec.lean`.
-/
import MaestroVerif.Model.Exec

namespace MaestroVerif.Conductor
open MaestroVerif.Exec MaestroVerif.Gen

/-- the operations of the loop, in the order they happen -/
inductive CEv
  | lockCheck (present : Bool)     -- `os.path.exists(cancel_lock_path)`
  | lockAcquire (ok : Bool)        -- `cancel_lock.acquire(timeout=10)` (false = `Timeout`)
  | cancelStudy                    -- `dag.cancel_study()`
  | lockRemove                     -- `os.remove(cancel_lock_path)`
  | poll                           -- `dag.execute_ready_steps()`
  | pickle                         -- `dag.pickle(pkl_path)`
  | writeStatus                    -- `dag.write_status(...)`
  | sleep                          -- `sleep(sleep_time)`
  deriving DecidableEq, Repr

structure Iter where
  lock    : Bool
  acquire : Bool
  answer  : PollIn

/-- what follows the poll: nothing when it raised; else the snapshot, the status table, and the
sleep while the study is running -/
def afterPoll : Ret → List CEv
  | .raised => []
  | .status v => [.pickle, .writeStatus] ++ (if v == .RUNNING then [.sleep] else [])

/-- what precedes the poll: the look at the cancel lock file and, if it is there, the cancellation -/
def beforePoll (lock acquire : Bool) : List CEv :=
  [.lockCheck lock] ++
  (if lock then [.lockAcquire acquire] ++ (if acquire then [.cancelStudy, .lockRemove] else []) else [])

/-- the operations of one iteration, given what the environment did and what the poll returned -/
def iterTrace (lock acquire : Bool) (ret : Ret) : List CEv :=
  beforePoll lock acquire ++ [.poll] ++ afterPoll ret

structure CS where
  g     : G
  trace : List CEv
  saved : Option G     -- the graph as last pickled / written to status.csv

/-- one iteration of the `while` loop; the second component is what the poll returned -/
def iter (cfg : Cfg) (s : CS) (it : Iter) : CS × Ret :=
  let g := if it.lock && it.acquire then cancel s.g else s.g
  let r := Exec.poll cfg g it.answer
  ({ g := r.1, trace := s.trace ++ iterTrace it.lock it.acquire r.2,
     saved := match r.2 with
       | .raised => s.saved
       | .status _ => some r.1 }, r.2)

/-- the loop: iterate while the poll returns RUNNING; `none` = the environment script ended
while the study was still running -/
def monitor (cfg : Cfg) : CS → List Iter → CS × Option Ret
  | s, [] => (s, none)
  | s, it :: rest =>
    let r := iter cfg s it
    match r.2 with
    | .status .RUNNING => monitor cfg r.1 rest
    | ret => (r.1, some ret)

def start (cfg : Cfg) : CS := { g := init cfg, trace := [], saved := none }

end MaestroVerif.Conductor
