/-
String substitution primitives used by the expansion pipeline:
`str.replace`, the `$(NAME)` token forms, the workspace-reference regex of
`study.py` (WSREGEX) and the parameter-use test of `parameters.py`.
ASCII model of `\w`; names are kept ASCII by the generators.
-/
namespace MaestroVerif.Subst

abbrev Str := List Char

/-- `s.replace(old, new)` for non-empty `old`: leftmost, non-overlapping.
`skip` counts the characters of a matched `old` still to be dropped. -/
def replaceGo (old new : Str) : Nat → Str → Str
  | _, [] => []
  | skip + 1, _ :: cs => replaceGo old new skip cs
  | 0, c :: cs =>
    if old.isPrefixOf (c :: cs) then new ++ replaceGo old new (old.length - 1) cs
    else c :: replaceGo old new 0 cs

def replaceAll (s old new : Str) : Str :=
  if old.isEmpty then s else replaceGo old new 0 s

/-- `old in s` -/
def occurs (old : Str) : Str → Bool
  | [] => old.isEmpty
  | c :: cs => old.isPrefixOf (c :: cs) || occurs old cs

def tok (name : Str) : Str := "$(".toList ++ name ++ ")".toList
def tokLabel (key : Str) : Str := "$(".toList ++ key ++ ".label)".toList
def tokName (key : Str) : Str := "$(".toList ++ key ++ ".name)".toList
def tokWs (step : Str) : Str := "$(".toList ++ step ++ ".workspace)".toList

/-- `re.findall(r"\$\(KEY(?:\.label|\.name)?\)", text)` is non-empty
(for keys made of word characters) -/
def usesParam (key : Str) (text : Str) : Bool :=
  occurs (tok key) text || occurs (tokLabel key) text || occurs (tokName key) text

def isWord (c : Char) : Bool :=
  ('a' ≤ c && c ≤ 'z') || ('A' ≤ c && c ≤ 'Z') || ('0' ≤ c && c ≤ '9') || c == '_'

/-- the character class of WSREGEX: ``[-!\$%\^&\*\(\)_\+\|~=`{}\[\]:;<>\?,\.\/\w]`` -/
def isWsClass (c : Char) : Bool :=
  isWord c || "-!$%^&*()_+|~=`{}[]:;<>?,./".toList.contains c

def wsSuffix : Str := ".workspace)".toList

/-- greedy `CLASS+` followed by `\.workspace\)`, with backtracking: the longest
`k ≥ 1` such that the first `k` characters are class characters and
`.workspace)` follows -/
def wsMatchLen (s : Str) : Option Nat :=
  let run := (s.takeWhile isWsClass).length
  let rec go (k : Nat) : Option Nat :=
    match k with
    | 0 => none
    | k' + 1 => if wsSuffix.isPrefixOf (s.drop (k' + 1)) then some (k' + 1) else go k'
  go run

/-- `re.findall(WSREGEX, s)`; `fuel` bounds the scan (`s.length + 1` suffices) -/
def findWs : Nat → Str → List Str
  | 0, _ => []
  | _, [] => []
  | fuel + 1, c :: cs =>
    if "$(".toList.isPrefixOf (c :: cs) then
      match wsMatchLen (cs.drop 1) with
      | some k => (cs.drop 1).take k :: findWs fuel ((cs.drop 1).drop (k + wsSuffix.length))
      | none => findWs fuel cs
    else findWs fuel cs

def usedSpaces (text : Str) : List Str := findWs (text.length + 1) text

/-- lexicographic `<` on strings by code point (Python's `sorted` on `str`) -/
def strLt : Str → Str → Bool
  | [], [] => false
  | [], _ :: _ => true
  | _ :: _, [] => false
  | a :: as, b :: bs => if a.toNat < b.toNat then true else if b.toNat < a.toNat then false else strLt as bs

def insertSorted (x : Str) : List Str → List Str
  | [] => [x]
  | y :: ys => if strLt y x then y :: insertSorted x ys else x :: y :: ys

/-- `sorted(set)` : sorted, duplicate-free -/
def sortDedup (l : List Str) : List Str :=
  (l.foldl (fun acc x => if acc.contains x then acc else insertSorted x acc) [])

def joinWith (sep : Str) : List Str → Str
  | [] => []
  | [x] => x
  | x :: y :: rest => x ++ sep ++ joinWith sep (y :: rest)

end MaestroVerif.Subst
