/-
Specification input that no code can supply: the schedulers' documented job
state vocabularies with their classification.  Hand-entered from
`man squeue` / `man sacct` (JOB STATE CODES), the IBM Spectrum LSF `bjobs`
reference (STAT) and `flux-jobs(1)` (status_abbrev).

* alive   – the job still exists in the scheduler and may (continue to) run;
* success – the one state that means "completed successfully";
* everything else in the vocabulary is a terminal non-success state.
-/
namespace MaestroVerif.SchedVocab

def slurmAlive : List String :=
  ["CF", "CONFIGURING", "CG", "COMPLETING", "PD", "PENDING", "R", "RUNNING",
   "RD", "RESV_DEL_HOLD", "RF", "REQUEUE_FED", "RH", "REQUEUE_HOLD", "RQ", "REQUEUED",
   "RS", "RESIZING", "SI", "SIGNALING", "SE", "SPECIAL_EXIT", "SO", "STAGE_OUT",
   "ST", "STOPPED", "S", "SUSPENDED"]
def slurmSuccess : List String := ["CD", "COMPLETED"]
def slurmTerminalBad : List String :=
  ["BF", "BOOT_FAIL", "CA", "CANCELLED", "DL", "DEADLINE", "F", "FAILED", "NF", "NODE_FAIL",
   "OOM", "OUT_OF_MEMORY", "PR", "PREEMPTED", "RV", "REVOKED", "TO", "TIMEOUT"]

def lsfAlive : List String := ["PEND", "PROV", "PSUSP", "RUN", "USUSP", "SSUSP", "WAIT"]
def lsfSuccess : List String := ["DONE"]
def lsfTerminalBad : List String := ["EXIT", "ZOMBI", "UNKWN"]

def fluxAlive : List String := ["D", "P", "S", "R", "C"]
def fluxSuccess : List String := ["CD"]
def fluxTerminalBad : List String := ["F", "CA", "TO"]

end MaestroVerif.SchedVocab
