/-
Model of study expansion: `Study.__init__` / `Study.add_step` (edges of the
abstract flow), `Study._stage` (used-parameter propagation, workspace
references, instance naming, hashing, substitution, edges, restart limit),
`ParameterGenerator.get_combinations`, `Combination.apply`,
`get_param_string`, `get_param_values`, `ExecutionGraph.add_step /
add_connection`, `_StepRecord.__init__` (`$(WORKSPACE)`), and
`utils.make_safe_path`.

The model starts from the steps *after* `apply_environment` (the harness passes
the step fields as `Study.add_step` left them) and from parameter values already
rendered with Python's `str()`; `hashlib.md5` is an oracle passed in as a table.
Python sets are iterated in an arbitrary order `ord` (a permutation oracle,
`id` in the driver): C11 proves the observable result does not depend on it.
-/
import MaestroVerif.Model.Dag
import MaestroVerif.Model.Subst
import MaestroVerif.Gen.SafeAlphabet

namespace MaestroVerif.Expand
open MaestroVerif.Subst MaestroVerif.Gen

/-! ### paths -/

/-- the per-component filter of `make_safe_path` -/
def sanitize (arg : Str) : Str :=
  (arg.filter (fun c => safeAlphabet.contains c)).map
    (fun c => match safeRewrite.find? (·.1 == c) with | some p => p.2 | none => c)

/-- POSIX `os.path.join(a, b)` -/
def pathJoin (a b : Str) : Str :=
  if b.head? == some '/' then b
  else if a.isEmpty || a.getLast? == some '/' then a ++ b
  else a ++ ['/'] ++ b

/-- `make_safe_path(base, *args)` -/
def makeSafePath (base : Str) (args : List Str) : Str :=
  args.foldl (fun p a => pathJoin p (sanitize a)) base

/-- where `LocalScriptAdapter.submit` writes the captured stdout / stderr of a step it ran:
`os.path.join(cwd, "<step.name>.<pid>.out")` and `….err` (`name` is the nickname the script is
called after, `pid` the process id as text) -/
def localCapturePaths (cwd name pid : Str) : Str × Str :=
  (pathJoin cwd (name ++ ['.'] ++ pid ++ ".out".toList), pathJoin cwd (name ++ ['.'] ++ pid ++ ".err".toList))

/-! ### specification -/

structure Param where
  key      : Str
  name     : Str
  tmpl     : Option Str       -- label template (`%%` = value); `none` = label list
  labels   : List Str         -- the label list when `tmpl = none`
  values   : List Str         -- `str(value)` per row

structure Step where
  name    : Str
  cmd     : Str
  restart : Str
  depends : List Str
  texts   : List Str          -- every string field of `step.__dict__` (for used-parameter detection)
  extras  : List (Str × Str)  -- the other string-valued `run` keys (nodes, procs, walltime, …)

structure Spec where
  root    : Str
  hashWs  : Bool
  rlimit  : Nat
  params  : List Param
  steps   : List Step
  md5     : List (Str × Str)  -- oracle: combination string ↦ hex digest

def SOURCE : Str := "_source".toList

/-! ### combinations -/

structure Combo where
  labels : List (Str × Str)   -- key ↦ label   (param order)
  values : List (Str × Str)   -- key ↦ value
  names  : List (Str × Str)   -- key ↦ name

def nRows (ps : List Param) : Nat :=
  match ps with
  | [] => 0
  | p :: _ => p.values.length

def combo (ps : List Param) (i : Nat) : Combo :=
  { labels := ps.map fun p =>
      let v := p.values.getD i []
      (p.key, match p.tmpl with
        | some t => replaceAll t "%%".toList v
        | none => p.labels.getD i []),
    values := ps.map fun p => (p.key, p.values.getD i []),
    names := ps.map fun p => (p.key, p.name) }

def lookup (l : List (Str × Str)) (k : Str) : Str :=
  match l.find? (·.1 == k) with
  | some p => p.2
  | none => []

/-- `Combination.apply`: labels, then values, then names -/
def Combo.apply (c : Combo) (item : Str) : Str :=
  let item := c.labels.foldl (fun s kv => replaceAll s (tokLabel kv.1) kv.2) item
  let item := c.values.foldl (fun s kv => replaceAll s (tok kv.1) kv.2) item
  c.names.foldl (fun s kv => replaceAll s (tokName kv.1) kv.2) item

/-- `get_param_string(params)`: labels of `sorted(params)` joined by `.` -/
def Combo.paramString (c : Combo) (used : List Str) : Str :=
  joinWith ['.'] ((sortDedup used).map (lookup c.labels))

/-- `get_param_values(params)` (after the sorted-order repair) -/
def Combo.paramValues (c : Combo) (used : List Str) : List (Str × Str) :=
  (sortDedup used).map fun k => (k, lookup c.values k)

/-! ### the abstract flow (`Study.__init__`) -/

/-- `re.sub(r"_\*|\*", "", dep)` -/
def stripCombos : Str → Str
  | [] => []
  | '_' :: '*' :: cs => stripCombos cs
  | '*' :: cs => stripCombos cs
  | c :: cs => c :: stripCombos cs

inductive Err
  | edgeSrcMissing       -- `add_edge`: ValueError (dependency on an unknown step)
  | cycle                -- `add_edge`: cycle exception
  | wsBeforeGenerated    -- "Workspace for ... is being used before it would be generated"
  | keyError             -- KeyError (e.g. workspace of an unknown instance)
  | recursion
  deriving DecidableEq, Repr

def idxOf (names : List Str) (n : Str) : Option Nat :=
  let i := names.idxOf n
  if i < names.length then some i else none

structure Flow where
  names : List Str          -- node names, insertion order (index 0 = `_source`)
  dag   : Dag.Dag
  steps : List (Str × Step) -- name ↦ first step with that name (`add_node` ignores duplicates)

def Flow.addNode (f : Flow) (n : Str) (s : Option Step) : Flow :=
  if f.names.contains n then f
  else { names := f.names ++ [n], dag := Dag.addNode f.dag f.names.length,
         steps := match s with | some st => f.steps ++ [(n, st)] | none => f.steps }

def Flow.addEdge (f : Flow) (src dst : Str) : Except Err Flow :=
  if src == dst then .ok f
  else match idxOf f.names src with
    | none => .error .edgeSrcMissing
    | some a =>
      match idxOf f.names dst with
      | none => .ok f
      | some b =>
        let r := Dag.addEdge f.dag a b
        match r.2 with
        | .ok => .ok { f with dag := r.1 }
        | .valueError => .error .edgeSrcMissing
        | .cycleError => .error .cycle
        | .outOfFuel => .error .recursion

/-- `Study.add_step` for every step of the specification, in order -/
def buildFlow (steps : List Step) : Except Err Flow :=
  steps.foldl (fun acc st =>
    match acc with
    | .error e => .error e
    | .ok f =>
      let f := f.addNode st.name (some st)
      if st.depends.isEmpty then f.addEdge SOURCE st.name
      else st.depends.foldl (fun acc d =>
        match acc with
        | .error e => .error e
        | .ok f => f.addEdge (if d.contains '*' then stripCombos d else d) st.name) (.ok f))
    (.ok (({ names := [], dag := Dag.empty, steps := [] } : Flow).addNode SOURCE none))

/-! ### the execution graph under construction -/

structure Inst where
  name     : Str              -- `real_name`
  nick     : Str              -- `step.name` (the hash when `--hashws`), used for the script file name
  ws       : Str              -- workspace
  cmd      : Str
  restart  : Str
  params   : List (Str × Str)
  rlimit   : Nat
  extras   : List (Str × Str)

structure XG where
  insts : List Inst                      -- `values` order (without `_source`)
  adj   : List (Str × List Str)          -- adjacency table, insertion order (incl. `_source`)
  deps  : List (Str × List Str)          -- `_dependencies`

def XG.hasNode (g : XG) (n : Str) : Bool := g.adj.any (·.1 == n)

def setAssoc (l : List (Str × List Str)) (k : Str) (v : List Str) : List (Str × List Str) :=
  if l.any (·.1 == k) then l.map (fun e => if e.1 == k then (k, v) else e) else l ++ [(k, v)]

def getAssoc (l : List (Str × List Str)) (k : Str) : List Str :=
  match l.find? (·.1 == k) with
  | some e => e.2
  | none => []

/-- `ExecutionGraph.add_step`: `_dependencies[name] = set()` always; the node only
if the name is new -/
def XG.addStep (g : XG) (i : Inst) : XG :=
  let g := { g with deps := setAssoc g.deps i.name [] }
  if g.hasNode i.name then g
  else { g with insts := g.insts ++ [i], adj := g.adj ++ [(i.name, [])] }

/-- `ExecutionGraph.add_connection` (the cycle check is disabled by `stage`) -/
def XG.addConnection (g : XG) (parent step : Str) : Except Err XG :=
  let addDep (g : XG) : XG :=
    let d := getAssoc g.deps step
    { g with deps := setAssoc g.deps step (if d.contains parent then d else d ++ [parent]) }
  if parent == step then
    -- `add_edge` returns; `_dependencies[step].add(parent)` raises KeyError only if step unknown
    .ok (addDep g)
  else if !g.hasNode parent then .error .edgeSrcMissing
  else if !g.hasNode step then .ok (addDep g)
  else
    let ch := getAssoc g.adj parent
    let g := if ch.contains step then g else { g with adj := setAssoc g.adj parent (ch ++ [step]) }
    .ok (addDep g)

/-! ### `_stage` -/

structure SS where
  g          : XG
  workspaces : List (Str × Str)            -- `self.workspaces`
  hub        : List (Str × List Str)       -- `hub_depends`
  depends    : List (Str × List Str)       -- `depends`
  used       : List (Str × List Str)       -- `used_params`
  combos     : List (Str × List Str)       -- `step_combos`

def union (a b : List Str) : List Str := b.foldl (fun acc x => if acc.contains x then acc else acc ++ [x]) a

/-- workspace substitution loop: `for match in used_spaces: cmd = cmd.replace(...)` -/
def substWs (resolve : Str → Except Err Str) : List Str → Str × Str → Except Err (Str × Str)
  | [], cr => .ok cr
  | m :: ms, (cmd, r) =>
    match resolve m with
    | .error e => .error e
    | .ok ws => substWs resolve ms (replaceAll cmd (tokWs m) ws, replaceAll r (tokWs m) ws)

def wsOf (l : List (Str × Str)) (k : Str) : Except Err Str :=
  match l.find? (·.1 == k) with
  | some p => .ok p.2
  | none => .error .keyError

def addConnections (ord : List Str → List Str) (g : XG) (parents : List Str) (child : Str) :
    Except Err XG :=
  (ord parents).foldl (fun acc p => match acc with
    | .error e => .error e
    | .ok g => g.addConnection p child) (.ok g)

/-- the edge wiring of one new instance: `_source` when the step has no dependency at all,
otherwise its ordinary parents, then for every funnel parent all of that parent's instances -/
def wire (ord : List Str → List Str) (g : XG) (isRoot : Bool) (parents hubD : List Str)
    (combos : List (Str × List Str)) (child : Str) : Except Err XG :=
  if isRoot then g.addConnection SOURCE child
  else
    match addConnections ord g parents child with
    | .error e => .error e
    | .ok g =>
      (ord hubD).foldl (fun acc parent => match acc with
        | .error e => .error e
        | .ok g => addConnections ord g (getAssoc combos parent) child) (.ok g)

/-- `dag.add_step(...)` followed by the wiring -/
def place (ord : List Str → List Str) (s : SS) (inst : Inst) (isRoot : Bool) (parents hubD : List Str) :
    Except Err SS :=
  match wire ord (s.g.addStep inst) isRoot parents hubD s.combos inst.name with
  | .error e => .error e
  | .ok g => .ok { s with g := g }

/-- parameters a step uses directly: `get_used_parameters(node)` -/
def directParams (spec : Spec) (st : Step) : List Str :=
  (spec.params.map (·.key)).filter (fun k => st.texts.any (usesParam k))

def hubOf (st : Step) : List Str := (st.depends.filter (·.contains '*')).map stripCombos
def depsOf (st : Step) : List Str := st.depends.filter (fun d => !d.contains '*')
def refsOf (st : Step) : List Str := Subst.usedSpaces (st.cmd ++ [' '] ++ st.restart)

/-- `p_params`: the parameters inherited from ordinary dependencies and from
referenced workspaces that are not funnel dependencies -/
def inheritedParams (usedTbl : List (Str × List Str)) (st : Step) : Except Err (List Str) :=
  (refsOf st).foldl (fun (acc : Except Err (List Str)) ws =>
    match acc with
    | .error e => .error e
    | .ok pp =>
      if !(usedTbl.any (·.1 == ws)) then .error .wsBeforeGenerated
      else if (hubOf st).contains ws then .ok pp
      else .ok (union pp (getAssoc usedTbl ws)))
    (.ok ((depsOf st).foldl (fun acc d => union acc (getAssoc usedTbl d)) []))

/-- `used_params[step] = p_params | s_params` -/
def usedOf (spec : Spec) (usedTbl : List (Str × List Str)) (st : Step) : Except Err (List Str) :=
  match inheritedParams usedTbl st with
  | .error e => .error e
  | .ok pp => .ok (union pp (directParams spec st))

/-- instance name of `step` for a combination: `step` itself when no parameter
is used, else `step_<labels of the sorted used parameters joined by '.'>` -/
def instName (step : Str) (used : List Str) (c : Combo) : Str :=
  if used.isEmpty then step else step ++ ['_'] ++ c.paramString used

/-- what `$(m.workspace)` stands for in an unparameterised step: the root directory of a funnel
parent, else the recorded workspace of the step `m` -/
def resolveFlat (spec : Spec) (hubD : List Str) (workspaces : List (Str × Str)) (m : Str) : Except Err Str :=
  if hubD.contains m then .ok (makeSafePath spec.root [m]) else wsOf workspaces m

/-- what `$(m.workspace)` stands for in the instance for combination `c`: the root directory of a
funnel parent, else the recorded workspace of `m`'s instance for the same combination -/
def resolveRow (spec : Spec) (hubD : List Str) (workspaces : List (Str × Str))
    (usedTbl : List (Str × List Str)) (c : Combo) (m : Str) : Except Err Str :=
  if hubD.contains m then .ok (makeSafePath spec.root [m])
  else if (getAssoc usedTbl m).isEmpty then wsOf workspaces m
  else wsOf workspaces (m ++ ['_'] ++ c.paramString (getAssoc usedTbl m))

/-- one iteration of `for combo in self.parameters` for a parameterised step (`used` = its used
parameters, already recorded in `s.used`) -/
def stageRow (spec : Spec) (ord : List Str → List Str) (st : Step) (used : List Str) (s : SS) (row : Nat) :
    Except Err SS :=
  let step := st.name
  let hubD := sortDedup (hubOf st)
  let depD := sortDedup (depsOf st)
  let usedSpaces := refsOf st
  let rlimit := if st.restart.isEmpty then 0 else spec.rlimit
  let c := combo spec.params row
  let comboStr := c.paramString used
  let nick := if spec.hashWs then lookup spec.md5 comboStr else []
  let workspace := makeSafePath spec.root [step, if spec.hashWs then nick else comboStr]
  let iname := instName step used c
  let s := { s with workspaces := s.workspaces.filter (fun (e : Str × Str) => e.1 != iname) ++ [(iname, workspace)] }
  if s.combos.any (·.1 == iname) then .ok s       -- `if combo_str in self.step_combos: continue`
  else
    let s := { s with combos := setAssoc s.combos step (union (getAssoc s.combos step) [iname]) }
    match substWs (resolveRow spec hubD s.workspaces s.used c) usedSpaces (c.apply st.cmd, c.apply st.restart) with
    | .error e => .error e
    | .ok (cmd, r) =>
      let wsTok := "$(WORKSPACE)".toList
      let inst : Inst := { name := iname, nick := if spec.hashWs then nick else iname,
                           ws := workspace, cmd := replaceAll cmd wsTok workspace,
                           restart := replaceAll r wsTok workspace,
                           params := c.paramValues used, rlimit := rlimit,
                           extras := st.extras.map fun (kv : Str × Str) => (kv.1, c.apply kv.2) }
      place ord s inst (depD.isEmpty && hubD.isEmpty)
        (depD.map fun p => instName p (getAssoc s.used p) c) hubD

/-- one step of the `for step in t_sorted` loop -/
def stageStep (spec : Spec) (ord : List Str → List Str) (s : SS) (st : Step) : Except Err SS :=
  let step := st.name
  let hub := hubOf st
  let deps := depsOf st
  let usedSpaces := refsOf st
  match usedOf spec s.used st with
  | .error e => .error e
  | .ok used =>
    let s := { s with hub := setAssoc s.hub step (sortDedup hub),
                      depends := setAssoc s.depends step (sortDedup deps),
                      used := setAssoc s.used step used,
                      combos := setAssoc s.combos step [] }
    let hubD := sortDedup hub
    let depD := sortDedup deps
    let rlimit := if st.restart.isEmpty then 0 else spec.rlimit
    if used.isEmpty then
      -- 1. no parameters
      let s := { s with combos := setAssoc s.combos step [step] }
      let workspace := makeSafePath spec.root [step]
      let s := { s with workspaces := s.workspaces.filter (fun (e : Str × Str) => e.1 != step) ++ [(step, workspace)] }
      match substWs (resolveFlat spec hubD s.workspaces) usedSpaces (st.cmd, st.restart) with
      | .error e => .error e
      | .ok (cmd, r) =>
        let wsTok := "$(WORKSPACE)".toList
        let inst : Inst := { name := step, nick := step, ws := workspace,
                             cmd := replaceAll cmd wsTok workspace,
                             restart := replaceAll r wsTok workspace, params := [], rlimit := rlimit,
                             extras := st.extras }
        place ord s inst (depD.isEmpty && hubD.isEmpty) depD hubD
    else
      -- 2. expand over every combination
      (List.range (nRows spec.params)).foldl (fun (acc : Except Err SS) row =>
        match acc with
        | .error e => .error e
        | .ok s => stageRow spec ord st used s row) (.ok s)

def initSS (root : Str) : SS :=
  { g := { insts := [], adj := [(SOURCE, [])], deps := [] },
    workspaces := [(SOURCE, root)], hub := [(SOURCE, [])], depends := [(SOURCE, [])],
    used := [(SOURCE, [])], combos := [(SOURCE, [])] }

/-- `Study(...)` + `stage()` -/
def stage (spec : Spec) (ord : List Str → List Str) : Except Err XG :=
  match buildFlow spec.steps with
  | .error e => .error e
  | .ok flow =>
    match Dag.topoSort flow.dag with
    | none => .error .recursion
    | some order =>
      let r := order.foldl (fun (acc : Except Err SS) idx =>
        match acc with
        | .error e => .error e
        | .ok s =>
          match flow.names[idx]? with
          | none => .ok s
          | some nm =>
            if nm == SOURCE then .ok s
            else match flow.steps.find? (·.1 == nm) with
              | none => .ok s
              | some (_, st) => stageStep spec ord s st) (.ok (initSS spec.root))
      match r with
      | .error e => .error e
      | .ok s => .ok s.g

/-! ### the same loop, keeping the whole staging state

`stage` above is what the graph-level correspondence runs; `stageSS` returns the tables `_stage`
leaves behind as well (`used_params`, `step_combos`, `workspaces`, `hub_depends`, `depends`), which
the correspondence compares after every staging (`exp.tables`).  `Lemmas/ExpandComplete.lean` proves
`stage = (·.g) <$> stageSS`. -/

/-- one iteration of `for step in t_sorted`: the step filed under the `idx`-th name of the flow -/
def stageIdx (spec : Spec) (ord : List Str → List Str) (flow : Flow) (acc : Except Err SS) (idx : Nat) :
    Except Err SS :=
  match acc with
  | .error e => .error e
  | .ok s =>
    match flow.names[idx]? with
    | none => .ok s
    | some nm =>
      if nm == SOURCE then .ok s
      else match flow.steps.find? (·.1 == nm) with
        | none => .ok s
        | some (_, st) => stageStep spec ord s st

/-- the loop of `stage`, returning the staging state it ends in -/
def stageSS (spec : Spec) (ord : List Str → List Str) : Except Err SS :=
  match buildFlow spec.steps with
  | .error e => .error e
  | .ok flow =>
    match Dag.topoSort flow.dag with
    | none => .error .recursion
    | some order => order.foldl (stageIdx spec ord flow) (.ok (initSS spec.root))

end MaestroVerif.Expand
