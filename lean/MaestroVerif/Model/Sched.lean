/-
Model of the scheduler adapters' status parsing:
`SlurmScriptAdapter._check_jobs_squeue / _check_jobs_sacct / check_jobs`,
`LSFScriptAdapter.check_jobs`, `FluxInterface_0490.get_statuses` +
`FluxScriptAdapter.check_jobs`, and the three `cancel_jobs`.

Strings are `List Char`; the state tables come from `Gen/SchedStates.lean`
(regenerated from the adapters' `_state` functions on every run).
Python library semantics modelled here (validated by the parsing
correspondence, ASCII only): `str.split("\n")`, `re.split(r"\s+", s)`,
`str.split("|")`, `str.strip()`, `re.search(r"^No\s", s)`, `sub in s`.
`IndexError`s of the Python code are `Except.error`.
-/
import MaestroVerif.Gen.SchedStates

namespace MaestroVerif.Sched
open MaestroVerif.Gen

abbrev Str := List Char

/-- `\s` of a `str` pattern, and `str.isspace` (the same set): ASCII blank, tab, line feed, carriage
return, vertical tab, form feed, the separators U+001C-U+001F, NEL, and the Unicode spaces -/
def isWs (c : Char) : Bool :=
  c == ' ' || c == '\t' || c == '\n' || c == '\r' || c == '\x0b' || c == '\x0c' ||
  (0x1c ≤ c.toNat && c.toNat ≤ 0x1f) || c.toNat == 0x85 || c.toNat == 0xa0 || c.toNat == 0x1680 ||
  (0x2000 ≤ c.toNat && c.toNat ≤ 0x200a) || c.toNat == 0x2028 || c.toNat == 0x2029 || c.toNat == 0x202f ||
  c.toNat == 0x205f || c.toNat == 0x3000

/-- `s.split(sep)` for a one-character separator -/
def splitOnChar (sep : Char) : Str → List Str
  | [] => [[]]
  | c :: cs =>
    match splitOnChar sep cs with
    | [] => [[]]            -- unreachable: the result is never empty
    | t :: ts => if c == sep then [] :: t :: ts else (c :: t) :: ts

def reSplitWsAux : Str → Str → Bool → List Str
  | [], cur, _ => [cur.reverse]
  | c :: cs, cur, inWs =>
    if isWs c then
      if inWs then reSplitWsAux cs cur true
      else cur.reverse :: reSplitWsAux cs [] true
    else reSplitWsAux cs (c :: cur) false

/-- `re.split(r"\s+", s)` -/
def reSplitWs (s : Str) : List Str := reSplitWsAux s [] false

/-- `s.strip()` -/
def strip (s : Str) : Str := ((s.dropWhile isWs).reverse.dropWhile isWs).reverse

/-- `sub in s` -/
def isInfix (sub : Str) : Str → Bool
  | [] => sub.isEmpty
  | c :: cs => sub.isPrefixOf (c :: cs) || isInfix sub cs

/-- the status dict: job id ↦ state or `None`, in insertion order -/
abbrev Status := List (Str × Option State)

def Status.init (ids : List Str) : Status :=
  ids.foldl (fun st id => if st.any (·.1 == id) then st else st ++ [(id, none)]) []

def Status.has (st : Status) (id : Str) : Bool := st.any (·.1 == id)

def Status.set (st : Status) (id : Str) (v : State) : Status :=
  st.map (fun e => if e.1 == id then (e.1, some v) else e)

def Status.get (st : Status) (id : Str) : Option State :=
  match st.find? (·.1 == id) with
  | some e => e.2
  | none => none

def Status.anyNone (st : Status) : Bool := st.any (·.2.isNone)

structure Proc where
  rc  : Nat
  out : Str

/-- what one output row does to the status dict -/
inductive RowAct
  | skip                                        -- blank / foreign / too short: ignored
  | fail                                        -- the Python code raises IndexError
  | upd (id : Str) (v : Except Unit State)      -- `status[id] = v` if `id in status` (error: IndexError)

def applyAct (st : Status) : RowAct → Except Unit Status
  | .skip => .ok st
  | .fail => .error ()
  | .upd id v =>
    if st.has id then
      match v with
      | .ok s => .ok (st.set id s)
      | .error e => .error e
    else .ok st

def foldActs : List RowAct → Status → Except Unit Status
  | [], st => .ok st
  | a :: as, st =>
    match applyAct st a with
    | .ok st' => foldActs as st'
    | .error e => .error e

/-! ### Slurm -/

/-- one row of `squeue` output (`jobid_index = 0`, `state_index = 3`): a leading
empty field (row starts with blanks) is dropped first -/
def squeueAct (row : Str) : RowAct :=
  let toks := reSplitWs row
  let toks := if toks.head? == some [] then toks.drop 1 else toks
  match toks with
  | [] => .skip
  | id :: rest =>
    .upd id (match rest[2]? with
      | some s => .ok (slurmState (String.ofList s))
      | none => .error ())

/-- one row of `sacct` output (`jobid_index = 0`, `state_index = 2`; no removal of
a leading empty field) -/
def sacctAct (row : Str) : RowAct :=
  match reSplitWs row with
  | [] => .skip
  | id :: rest =>
    .upd id (match rest[1]? with
      | some s => .ok (slurmState (String.ofList s))
      | none => .error ())

def foldRows (f : Str → RowAct) (rows : List Str) (st : Status) : Except Unit Status :=
  foldActs (rows.map f) st

def rcCode (rc : Nat) : JobStatusCode :=
  if rc == 0 then .OK else if rc == 1 then .NOJOBS else .ERROR

/-- `_check_jobs_squeue` -/
def squeue (st : Status) (p : Proc) : Except Unit (JobStatusCode × Status) :=
  if p.rc == 0 then
    match foldRows squeueAct ((splitOnChar '\n' p.out).drop 1) st with
    | .ok st' => .ok (.OK, st')
    | .error e => .error e
  else .ok (rcCode p.rc, st)

/-- `_check_jobs_sacct` -/
def sacct (st : Status) (p : Proc) : Except Unit (JobStatusCode × Status) :=
  if p.rc == 0 then
    match foldRows sacctAct ((splitOnChar '\n' p.out).drop 2) st with
    | .ok st' => .ok (.OK, st')
    | .error e => .error e
  else .ok (rcCode p.rc, st)

/-- the final code: any OK wins, all NOJOBS is NOJOBS, otherwise ERROR -/
def combine (codes : List JobStatusCode) : JobStatusCode :=
  if codes.any (· == .OK) then .OK
  else if codes.all (· == .NOJOBS) then .NOJOBS
  else .ERROR

/-- `[jobid for jobid, jstatus in status.items() if jstatus is None]` -/
def Status.missing (st : Status) : List Str :=
  (st.map (·.1)).filter (fun id => (st.get id).isNone)

/-- `SlurmScriptAdapter.check_jobs`; the accounting command is consulted only when
some job is still `None` after `squeue`, and it is asked (`--jobs=`) about exactly
those jobs: `acct req` is what `sacct` answers to the request `req` -/
def slurmCheck (ids : List Str) (sq : Proc) (acct : List Str → Proc) :
    Except Unit (JobStatusCode × Status) :=
  match squeue (Status.init ids) sq with
  | .error e => .error e
  | .ok (c1, st1) =>
    if st1.anyNone then
      match sacct st1 (acct st1.missing) with
      | .error e => .error e
      | .ok (c2, st2) => .ok (combine [c1, c2], st2)
    else .ok (combine [c1], st1)

/-- `"\n".join(rows)` -/
def joinLines : List Str → Str
  | [] => []
  | [r] => r
  | r :: rs => r ++ '\n' :: joinLines rs

/-- the first field of an accounting row as `sacctAct` reads it -/
def rowId (row : Str) : Str := (reSplitWs row).headD []

/-- The scheduler side of the `sacct --jobs=<req>` contract used by the correspondence
(mirrored by the harness' scripted `sacct`): of the full accounting text, the rows whose
job field is one of Maestro's own job ids are returned only for the ids that were asked
about; every other row (headers, other users' jobs, job steps, array rows, blank lines)
is returned whatever the request. -/
def acctReply (ids : List Str) (full : Proc) (req : List Str) : Proc :=
  let rows := splitOnChar '\n' full.out
  { rc := full.rc,
    out := joinLines (rows.take 2 ++
      (rows.drop 2).filter (fun r => !(ids.contains (rowId r) && !req.contains (rowId r)))) }

/-! ### `submit`: the job identifier -/

/-- `re.search('[0-9]+', output).group(0)`: the first maximal run of (ASCII) digits -/
def firstDigits (s : Str) : Option Str :=
  match s.dropWhile (fun c => !c.isDigit) with
  | [] => none
  | l => some (l.takeWhile Char.isDigit)

/-- what `SlurmScriptAdapter.submit` / `LSFScriptAdapter.submit` make of the exit status and the
output of `sbatch` / `bsub`: submission code and job identifier; `none.group(0)` is an
`AttributeError` -/
def submitResult (rc : Nat) (out : Str) : Except Unit (SubmissionCode × Option Str) :=
  if rc == 0 then
    match firstDigits out with
    | some j => .ok (.OK, some j)
    | none => .error ()
  else .ok (.ERROR, none)

/-! ### LSF -/

def lsfAct (row : Str) : RowAct :=
  let f := (splitOnChar '|' row).map strip
  if f.length < 4 then .skip
  else
    -- `while job_split[0] == "": job_split = job_split[1:]` raises IndexError
    -- when every field is empty
    match f.dropWhile (· == []) with
    | [] => .fail
    | id :: rest =>
      .upd id (match rest[0]? with
        | none => .error ()
        | some stat =>
          if stat == "EXIT".toList then
            -- the termination reason (index 3) is only read for EXIT
            match rest[2]? with
            | none => .error ()
            | some reason =>
              .ok (lsfState (String.ofList (
                if isInfix "TERM_RUNLIMIT".toList reason then "TIMEOUT".toList
                else if isInfix "TERM_OWNER".toList reason then "CANCELLED".toList
                else stat)))
          else .ok (lsfState (String.ofList stat)))

/-- `re.search(r"^No\s", output)` -/
def startsWithNo (s : Str) : Bool :=
  match s with
  | 'N' :: 'o' :: c :: _ => isWs c
  | _ => false

/-- `LSFScriptAdapter.check_jobs` -/
def lsfCheck (ids : List Str) (p : Proc) : Except Unit (JobStatusCode × Status) :=
  let st := Status.init ids
  if p.rc == 0 then
    if startsWithNo p.out then .ok (.NOJOBS, [])
    else
      match foldRows lsfAct ((splitOnChar '\n' p.out).drop 1) st with
      | .ok st' => .ok (.OK, st')
      | .error e => .error e
  else if p.rc == 255 then .ok (.NOJOBS, st)
  else .ok (.ERROR, st)

/-! ### Flux -/

/-- `get_statuses`: one entry per job the RPC returned; `errs` = the RPC
reported errors -/
def fluxCheck (ids : List Str) (answers : List (Str × Str)) (errs : Bool) :
    JobStatusCode × Status :=
  if ids.isEmpty then (.OK, [])
  else
    (if errs then .ERROR else .OK,
     answers.foldl (fun st a =>
       let v := fluxState (String.ofList a.2)
       if st.any (·.1 == a.1) then st.map (fun e => if e.1 == a.1 then (e.1, some v) else e)
       else st ++ [(a.1, some v)]) [])

/-! ### cancel_jobs (all three schedulers) -/

/-- `(cancel_status, return_code)` of the `CancellationRecord` -/
def cancelJobs (ids : List Str) (rc : Nat) : CancelCode × Nat :=
  if ids.isEmpty then (.OK, 0)
  else if rc == 0 then (.OK, rc) else (.ERROR, rc)

end MaestroVerif.Sched
