/-
Model of batch-script generation:
`SchedulerScriptAdapter.get_scheduler_command / _substitute_parallel_command`,
`SlurmScriptAdapter.get_header / get_parallelize_command / _write_script`,
`LSFScriptAdapter.get_header / get_parallelize_command / _write_script`,
`FluxScriptAdapter.get_header / get_parallelize_command (FluxInterface_0490.parallelize) /
_write_script`, `LocalScriptAdapter._write_script`.

Python's dynamic typing is part of the behaviour (an `int` compared with a `str`
raises `TypeError`, `""` is falsy, `str(None)` is `"None"`), so resource values
are a small sum type `Val` and every Python exception is an `Except` error.
-/
import MaestroVerif.Model.Subst

namespace MaestroVerif.Launcher
open MaestroVerif.Subst

inductive Val
  | none
  | int (n : Int)
  | str (s : Str)
  | bool (b : Bool)
  deriving DecidableEq, Repr

inductive PErr
  | valueError | typeError | runtimeError | attributeError | keyError | zeroDivision
  deriving DecidableEq, Repr

abbrev Dict := List (Str × Val)

/-- lookup by key (first entry) -/
def Dict.look : Dict → Str → Option Val
  | [], _ => Option.none
  | e :: rest, k => if e.1 == k then some e.2 else Dict.look rest k

def Dict.get? (d : Dict) (k : String) : Option Val := d.look k.toList

/-- `d.get(k)` (default `None`) -/
def Dict.getN (d : Dict) (k : String) : Val := (d.get? k).getD .none

/-- `d[k] = v`: replace in place, or append a new key -/
def Dict.set : Dict → Str → Val → Dict
  | [], k, v => [(k, v)]
  | e :: rest, k, v => if e.1 == k then (k, v) :: rest else e :: Dict.set rest k v

def Dict.update : Dict → Dict → Dict
  | d, [] => d
  | d, kv :: rest => Dict.update (d.set kv.1 kv.2) rest

def Dict.remove (d : Dict) (k : String) : Dict := d.filter (fun e => e.1 != k.toList)

/-- Python truthiness -/
def Val.truthy : Val → Bool
  | .none => false
  | .int n => n != 0
  | .str s => !s.isEmpty
  | .bool b => b

def natStr (n : Nat) : Str := (toString n).toList

/-- `str(v)` -/
def Val.pyStr : Val → Str
  | .none => "None".toList
  | .int n => if n < 0 then '-' :: natStr n.natAbs else natStr n.natAbs
  | .str s => s
  | .bool b => if b then "True".toList else "False".toList

def isDigit (c : Char) : Bool := '0' ≤ c && c ≤ '9'
def isSpace (c : Char) : Bool :=
  c == ' ' || c == '\t' || c == '\n' || c == '\r' || c == '\x0b' || c == '\x0c'

def digitsVal (s : Str) : Nat := s.foldl (fun n c => n * 10 + (c.toNat - '0'.toNat)) 0

def stripWs (s : Str) : Str := ((s.dropWhile isSpace).reverse.dropWhile isSpace).reverse

def signSplit : Str → Bool × Str
  | '-' :: r => (true, r)
  | '+' :: r => (false, r)
  | r => (false, r)

/-- `int(s)` for a string: optional blanks, optional sign, digits -/
def parseInt (s : Str) : Except PErr Int :=
  if (signSplit (stripWs s)).2.isEmpty || !(signSplit (stripWs s)).2.all isDigit then .error .valueError
  else .ok (if (signSplit (stripWs s)).1 then -(digitsVal (signSplit (stripWs s)).2 : Int)
            else (digitsVal (signSplit (stripWs s)).2 : Int))

/-- `int(v)` -/
def Val.toInt : Val → Except PErr Int
  | .none => .error .typeError
  | .int n => .ok n
  | .str s => parseInt s
  | .bool b => .ok (if b then 1 else 0)

/-- `a > v` for an `int` `a` -/
def intGt (a : Int) : Val → Except PErr Bool
  | .int n => .ok (a > n)
  | .bool b => .ok (a > (if b then 1 else 0))
  | _ => .error .typeError

/-! ### the launcher token -/

def launcherVar : Str := "$(LAUNCHER)".toList

/-- `re.finditer(r"\$\(LAUNCHER\)\[(?P<alloc>.*?)\]", cmd)`: the allocation strings, in
order (`.` does not cross a newline; `.*?` is lazy: up to the first `]` of the line) -/
def findAllocs : Nat → Str → List Str
  | 0, _ => []
  | _, [] => []
  | fuel + 1, c :: cs =>
    let pre := launcherVar ++ ['[']
    if pre.isPrefixOf (c :: cs) then
      let rest := (c :: cs).drop pre.length
      let alloc := rest.takeWhile (fun x => x != ']' && x != '\n')
      if (rest.drop alloc.length).head? == some ']' then
        alloc :: findAllocs fuel (rest.drop (alloc.length + 1))
      else findAllocs fuel cs
    else findAllocs fuel cs

/-- first maximal digit run that is immediately followed by `suffix` -/
def digitsBefore (suffix : Char) : Nat → Str → Option Str
  | 0, _ => none
  | _, [] => none
  | fuel + 1, c :: cs =>
    if isDigit c then
      let run := (c :: cs).takeWhile isDigit
      let after := (c :: cs).drop run.length
      if after.head? == some suffix then some run else digitsBefore suffix fuel after
    else digitsBefore suffix fuel cs

/-- `re.search(r"[0-9]+,\s*[0-9]+", alloc)` succeeds -/
def hasLegacy : Nat → Str → Bool
  | 0, _ => false
  | _, [] => false
  | fuel + 1, c :: cs =>
    if isDigit c then
      let run := (c :: cs).takeWhile isDigit
      let after := (c :: cs).drop run.length
      match after with
      | ',' :: r => if ((r.dropWhile isSpace).head?.map isDigit).getD false then true
                    else hasLegacy fuel after
      | _ => hasLegacy fuel after
    else hasLegacy fuel cs

def splitOnChar (sep : Char) (s : Str) : List Str :=
  match s with
  | [] => [[]]
  | c :: cs =>
    match splitOnChar sep cs with
    | [] => [[]]
    | t :: ts => if c == sep then [] :: t :: ts else (c :: t) :: ts

/-- the per-token allocation `(nodes, procs)` as the strings the code extracts
(`none` = Python `None`) -/
def parseAlloc (alloc : Str) : Except PErr (Option Str × Option Str) :=
  if hasLegacy (alloc.length + 1) alloc then
    let parts := splitOnChar ',' alloc
    .ok (parts[0]?, parts[1]?)
  else if alloc.count 'p' > 1 || alloc.count 'n' > 1 then .error .valueError
  else if alloc.count 'p' < 1 then .error .valueError
  else .ok (digitsBefore 'n' (alloc.length + 1) alloc, digitsBefore 'p' (alloc.length + 1) alloc)

inductive Adapter | slurm | lsf | flux | localA
  deriving DecidableEq, Repr

/-- an optional extracted string as a Python value (`None` when absent) -/
def optStr : Option Str → Val
  | some s => .str s
  | none => .none

/-! ### `get_parallelize_command` -/

def joinSp (l : List Str) : Str := joinWith [' '] l

/-- `kwargs.get(key, default)` -/
def getD (d : Dict) (k : String) (dflt : Val) : Val := (d.get? k).getD dflt

/-- Slurm: `srun [-n <procs>] [-N <nodes>] [-c <cores per task>]` -/
def slurmParallel (procs nodes : Val) (addl : Dict) : Str :=
  let args := ["srun".toList]
  let args := if procs.truthy then args ++ ["-n".toList, procs.pyStr] else args
  let args := if nodes.truthy then args ++ ["-N".toList, nodes.pyStr] else args
  let c := addl.getN "cores per task"
  let args := if c.truthy then args ++ ["-c".toList, c.pyStr] else args
  joinSp args

/-- LSF: `jsrun --nrs <procs> -b <bind> [-g gpus] [-B bind gpus] -a .. -r .. -c ..`;
the consistency checks only log, but their conversions are evaluated and can raise -/
def lsfParallel (procs nodes : Val) (addl : Dict) : Except PErr Str := do
  let rsPerNode := getD addl "rs per node" (.int 1)
  let tasksPerRs := getD addl "tasks per rs" (.int 1)
  let p ← procs.toInt
  let r ← rsPerNode.toInt
  let n ← nodes.toInt
  let t ← tasksPerRs.toInt
  let rsTasks := if nodes.truthy then r * n * t else r * t
  if !(p > rsTasks) && rsTasks == 0 then .error .zeroDivision
  let args := ["jsrun".toList, "--nrs".toList, procs.pyStr, "-b".toList,
    (getD addl "bind" (.str "rs".toList)).pyStr]
  let gpus := getD addl "gpus" (.int 0)
  let args := if gpus.truthy then args ++ ["-g".toList, gpus.pyStr] else args
  let bg := addl.getN "bind gpus"
  let args := if bg.truthy then args ++ ["-B".toList, bg.pyStr] else args
  let cpr := getD addl "cpus per rs" (.int 1)
  let cpr := if cpr.truthy then cpr else .int 1
  .ok (joinSp (args ++ ["-a".toList, tasksPerRs.pyStr, "-r".toList, rsPerNode.pyStr,
    "-c".toList, cpr.pyStr]))

/-- Flux 0.49: `flux run -n <procs> -N <nodes or batch nodes or 1> [-c <cores per task>]
[-g gpus] [-o k=v,..]` -/
def fluxParallel (batch : Dict) (procs nodes : Val) (addl : Dict) (fluxArgs : List (Str × Str)) : Str :=
  let ntasks := if nodes.truthy then nodes else getD batch "nodes" (.int 1)
  let ntasks := if ntasks.truthy then ntasks else .int 1
  let args := ["flux".toList, "run".toList, "-n".toList, procs.pyStr, "-N".toList, ntasks.pyStr]
  let args := match addl.get? "cores per task" with
    | some c => args ++ ["-c".toList, (if c.truthy then c else .int 1).pyStr]
    | none => args
  let g := getD addl "gpus" (.int 0)
  let args := if g.truthy then args ++ ["-g".toList, g.pyStr] else args
  let args := if fluxArgs.isEmpty then args
    else args ++ ["-o".toList, joinWith [','] (fluxArgs.map fun kv => kv.1 ++ ['='] ++ kv.2)]
  joinSp args

structure Ctx where
  adapter   : Adapter
  batch     : Dict                -- the adapter's `_batch`
  shell     : Str
  fluxArgs  : List (Str × Str)    -- batch `args` (Flux `-o` options), stringified
  fluxVer   : Str                 -- broker version string shown in the Flux header

def bash : Str := "/bin/bash".toList

/-- the adapters' `__init__`: the batch block `kw` becomes `_batch` (a missing
`host` / `bank` / `queue` is a `KeyError`) -/
def mkCtx (a : Adapter) (kw : Dict) (fluxArgs : List (Str × Str)) (envUri : Val) (fluxVer : Str) :
    Except PErr Ctx := do
  let shell := (getD kw "shell" (.str bash)).pyStr
  let req (k : String) : Except PErr Val :=
    match kw.get? k with
    | some v => .ok v
    | none => .error .keyError
  match a with
  | .slurm =>
    let host ← req "host"
    let bank ← req "bank"
    let queue ← req "queue"
    let b : Dict := [("nodes".toList, getD kw "nodes" (.str [])), ("host".toList, host),
      ("bank".toList, bank), ("queue".toList, queue),
      ("reservation".toList, getD kw "reservation" (.str [])), ("qos".toList, kw.getN "qos")]
    let procs := kw.getN "procs"
    let b := if procs.truthy then b ++ [("procs".toList, procs)] else b
    .ok { adapter := a, batch := b, shell := shell, fluxArgs := [], fluxVer := [] }
  | .lsf =>
    let host ← req "host"
    let bank ← req "bank"
    let queue ← req "queue"
    let b : Dict := [("host".toList, host), ("bank".toList, bank), ("queue".toList, queue),
      ("nodes".toList, getD kw "nodes" (.str "1".toList))]
    let rsv := kw.getN "reservation"
    let b := if rsv.truthy then b ++ [("reservation".toList, rsv)] else b
    .ok { adapter := a, batch := b, shell := bash, fluxArgs := [], fluxVer := [] }
  | .flux =>
    let uri := if (kw.getN "uri").truthy then kw.getN "uri" else envUri
    let b : Dict := [("nodes".toList, getD kw "nodes" (.str "1".toList))]
    let b := if uri.truthy then b ++ [("flux_uri".toList, uri)] else b
    let b := b ++ [("version".toList, getD kw "version" (.str "0.49.0".toList))]
    .ok { adapter := a, batch := b, shell := shell, fluxArgs := fluxArgs, fluxVer := fluxVer }
  | .localA => .ok { adapter := a, batch := [], shell := shell, fluxArgs := [], fluxVer := [] }

def parallel (cx : Ctx) (procs nodes : Val) (addl : Dict) : Except PErr Str :=
  match cx.adapter with
  | .slurm => .ok (slurmParallel procs nodes addl)
  | .lsf => lsfParallel procs nodes addl
  | .flux => .ok (fluxParallel cx.batch procs nodes addl cx.fluxArgs)
  | .localA => .ok []

/-! ### `_substitute_parallel_command` -/

structure Acc where
  cmd        : Str
  totalNodes : Int
  totalProcs : Int

/-- the count one token asks for: `none` when the token does not give it -/
def tokCount (s : Option Str) : Except PErr (Option Int) :=
  match s with
  | some t => if t.isEmpty then .ok none else (parseInt t).map some
  | none => .ok none

/-- does one token ask for more than the step declares? -/
def overOne (total : Val) (max : Int) : Option Int → Bool
  | some v => total.truthy && v > max
  | none => false

/-- one `$(LAUNCHER)[alloc]` match -/
def substOne (cx : Ctx) (nodes procs : Val) (maxN maxP : Int) (addl : Dict) (acc : Acc) (alloc : Str) :
    Except PErr Acc :=
  match parseAlloc alloc with
  | .error e => .error e
  | .ok (ns, ps) =>
    match tokCount ns, tokCount ps with
    | .error e, _ => .error e
    | .ok _, .error e => .error e
    | .ok n, .ok p =>
      if overOne nodes maxN n || overOne procs maxP p then .error .valueError
      else
        match parallel cx (optStr ps) (optStr ns) addl with
        | .error e => .error e
        | .ok pcmd =>
          .ok { cmd := replaceAll acc.cmd (launcherVar ++ ['['] ++ alloc ++ [']']) pcmd,
                totalNodes := acc.totalNodes + n.getD 0, totalProcs := acc.totalProcs + p.getD 0 }

/-- the loop over the matches -/
def substFold (cx : Ctx) (nodes procs : Val) (maxN maxP : Int) (addl : Dict) :
    Acc → List Str → Except PErr Acc
  | acc, [] => .ok acc
  | acc, a :: as =>
    match substOne cx nodes procs maxN maxP addl acc a with
    | .error e => .error e
    | .ok acc' => substFold cx nodes procs maxN maxP addl acc' as

/-- `int(total) if total else 0` -/
def maxOf (v : Val) : Except PErr Int := if v.truthy then v.toInt else .ok 0

def substituteParallel (cx : Ctx) (cmd : Str) (run : Dict) : Except PErr Str :=
  let nodes := run.getN "nodes"
  let procs := run.getN "procs"
  let addl := (run.remove "nodes").remove "procs"
  let allocs := findAllocs (cmd.length + 1) cmd
  if allocs.isEmpty then
    match parallel cx procs nodes addl with
    | .error e => .error e
    | .ok pcmd => if occurs launcherVar cmd then .ok (replaceAll cmd launcherVar pcmd) else .ok cmd
  else
    match maxOf nodes, maxOf procs with
    | .error e, _ => .error e
    | .ok _, .error e => .error e
    | .ok maxN, .ok maxP =>
      match substFold cx nodes procs maxN maxP addl { cmd := cmd, totalNodes := 0, totalProcs := 0 } allocs with
      | .error e => .error e
      | .ok acc =>
        if procs.truthy && acc.totalProcs > maxP then .error .valueError
        else if nodes.truthy && acc.totalNodes > maxN then .error .valueError
        else .ok acc.cmd

/-- does the step declare nodes or procs? -/
def declares (run : Dict) : Bool :=
  (getD run "nodes" (.int 0)).truthy || (getD run "procs" (.int 0)).truthy

/-- `get_scheduler_command(step)`: (to be scheduled?, cmd, restart) -/
def schedulerCommand (cx : Ctx) (run : Dict) : Except PErr (Bool × Str × Str) :=
  let cmd := (run.getN "cmd").pyStr
  let restart := run.getN "restart"
  if declares run then
    match substituteParallel cx cmd run with
    | .error e => .error e
    | .ok c =>
      if restart.truthy then
        match substituteParallel cx restart.pyStr run with
        | .error e => .error e
        | .ok r => .ok (true, c, r)
      else .ok (true, c, [])
  else .ok (false, cmd, if restart.truthy then restart.pyStr else [])

/-! ### headers -/

def replaceChar (s : Str) (a b : Char) : Str := s.map (fun c => if c == a then b else c)

def hline (pre : String) (v : Val) (post : String := "") : Str := pre.toList ++ v.pyStr ++ post.toList

/-- `{resource: value for resource, value in step.run.items() if value}` -/
def truthyItems (run : Dict) : Dict := run.filter (·.2.truthy)

def slurmKeys : List (String × (Val → Str)) :=
  [("nodes", fun v => hline "#SBATCH --nodes=" v), ("queue", fun v => hline "#SBATCH --partition=" v),
   ("bank", fun v => hline "#SBATCH --account=" v), ("walltime", fun v => hline "#SBATCH --time=" v),
   ("job-name", fun v => hline "#SBATCH --job-name=\"" v "\"" ++ ['\n'] ++
      hline "#SBATCH --output=\"" v ".out\"" ++ ['\n'] ++ hline "#SBATCH --error=\"" v ".err\""),
   ("comment", fun v => hline "#SBATCH --comment \"" v "\""),
   ("reservation", fun v => hline "#SBATCH --reservation=\"" v "\""),
   ("gpus", fun v => hline "#SBATCH --gres=gpu:" v)]

/-- the resource table `get_header` formats from -/
def slurmResources (cx : Ctx) (name desc : Str) (run : Dict) : Dict :=
  ((cx.batch.update (truthyItems run)).set "job-name".toList (.str (replaceChar name ' ' '_'))).set
    "comment".toList (.str (replaceChar desc '\n' ' '))

/-- the directive for one resource: present iff the resource has a truthy value -/
def optLine (f : Val → Str) : Option Val → Option Str
  | some v => if v.truthy then some (f v) else none
  | none => none

def slurmKeyLines (res : Dict) : List Str :=
  slurmKeys.filterMap fun kf => optLine kf.2 (res.get? kf.1)

/-- `SlurmScriptAdapter.get_header`, as a list of lines -/
def slurmHeaderLines (cx : Ctx) (name desc : Str) (run : Dict) : Except PErr (List Str) :=
  let procsInBatch := (cx.batch.get? "procs").isSome
  let res := slurmResources cx name desc run
  let procs := res.getN "procs"
  let nodes := res.getN "nodes"
  if !procs.truthy && !nodes.truthy then .error .runtimeError
  else
    let ntasks : Except PErr (List Str) :=
      if procsInBatch || !nodes.truthy then
        match res.get? "procs" with
        | some v => .ok [hline "#SBATCH --ntasks=" v]
        | none => .error .keyError
      else .ok []
    match ntasks with
    | .error e => .error e
    | .ok nt =>
      let excl := if (getD res "exclusive" (.bool false)).truthy then ["#SBATCH --exclusive".toList] else []
      let qos := res.getN "qos"
      let q := if qos.truthy then [hline "#SBATCH --qos=" qos] else []
      .ok (("#!".toList ++ cx.shell) :: slurmKeyLines res ++ nt ++ excl ++ q)

def slurmHeader (cx : Ctx) (name desc : Str) (run : Dict) : Except PErr Str :=
  (slurmHeaderLines cx name desc run).map (joinWith ['\n'])

/-- `"{:02d}".format(n)` -/
def pad2 (n : Int) : Str :=
  if n < 0 then
    let s := natStr n.natAbs
    '-' :: s
  else
    let s := natStr n.natAbs
    if s.length < 2 then '0' :: s else s

/-- `float(s)` for the decimal forms `d+` and `d+.d*` / `.d+`, as a rational
`(numerator, denominator = 10^k)`; other spellings are outside the model -/
def parseDecimal (s : Str) : Option (Nat × Nat) :=
  let ip := s.takeWhile isDigit
  let rest := s.drop ip.length
  match rest with
  | [] => if ip.isEmpty then none else some (digitsVal ip, 1)
  | '.' :: fp =>
    if fp.all isDigit && !(ip.isEmpty && fp.isEmpty) then
      some (digitsVal (ip ++ fp), 10 ^ fp.length)
    else none
  | _ => none

/-- `ceil(float(sec) / 60)` -/
def ceilMinutes (sec : Str) : Option Int :=
  (parseDecimal sec).map fun (num, den) => ((num + 60 * den - 1) / (60 * den) : Nat)

def lsfKeys : List (String × String) :=
  [("nodes", "#BSUB -nnodes "), ("queue", "#BSUB -q "), ("bank", "#BSUB -G "), ("walltime", "#BSUB -W "),
   ("job-name", "#BSUB -J "), ("output", "#BSUB -o "), ("reservation", "#BSUB -U "), ("error", "#BSUB -e ")]

/-- LSF wants `HH:MM`: a three-part walltime has its seconds rounded up into minutes -/
def lsfWalltime (wt : Str) : Except PErr Str :=
  let parts := splitOnChar ':' wt
  if parts.length == 3 then
    match ceilMinutes (parts.getD 2 []) with
    | none => .error .valueError
    | some sm =>
      match parseInt (parts.getD 1 []), parseInt (parts.getD 0 []) with
      | .ok m, .ok h =>
        let total := m + sm
        .ok (pad2 (h + Int.tdiv total 60) ++ [':'] ++ pad2 (total % 60))
      | .error e, _ => .error e
      | _, .error e => .error e
  else .ok wt

def lsfResources (cx : Ctx) (name : Str) (run : Dict) (wt : Str) : Dict :=
  let jn := replaceChar name ' ' '_'
  let bh := cx.batch.set "nodes".toList (getD run "nodes" (cx.batch.getN "nodes"))
  let bh := bh.set "job-name".toList (.str jn)
  let bh := bh.set "output".toList (.str (jn ++ ".%J.out".toList))
  let bh := bh.set "error".toList (.str (jn ++ ".%J.err".toList))
  (bh.update (truthyItems run)).set "walltime".toList (.str wt)

def lsfHeaderLines (cx : Ctx) (name : Str) (run : Dict) : Except PErr (List Str) :=
  match lsfWalltime (run.getN "walltime").pyStr with
  | .error e => .error e
  | .ok wt =>
    let bh := lsfResources cx name run wt
    .ok (("#!".toList ++ cx.shell) :: lsfKeys.filterMap fun kp => (bh.get? kp.1).map (hline kp.2 ·))

def lsfHeader (cx : Ctx) (name : Str) (run : Dict) : Except PErr Str :=
  (lsfHeaderLines cx name run).map (joinWith ['\n'])

/-- Flux `_convert_walltime_to_seconds`, as the text `str(...)` of its result
(digit-only spellings; a fractional part is outside the model) -/
def fluxWalltime : Val → Except PErr Str
  | .int n => .ok (Val.int (n * 60)).pyStr
  | .bool b => .ok (if b then "60".toList else "0".toList)
  | .none => .error .typeError
  | .str s =>
    if !s.isEmpty && s.all isDigit then .ok (natStr (digitsVal s * 60))
    else if s.contains ':' then
      -- sum of float(part) * 60**i over the reversed parts (signed integers here)
      let parts := (splitOnChar ':' s).reverse
      match parts.mapM (fun p => (parseInt p).toOption) with
      | some vs =>
        let total : Int := (List.zipIdx vs).foldl (fun t pi => t + pi.1 * (60 : Int) ^ pi.2) 0
        .ok ((Val.int total).pyStr ++ ".0".toList)
      | none => .error .valueError
    else if s.isEmpty || s == "inf".toList then .ok "0".toList
    else .error .valueError

def fluxKeys : List (String × String) :=
  [("nodes", "#INFO (nodes) "), ("walltime", "#INFO (walltime) "),
   ("version", "#INFO (flux adapter version) "), ("flux_version", "#INFO (flux version) "),
   ("flux_uri", "#INFO (flux_uri) ")]

def fluxHeaderLines (cx : Ctx) (run : Dict) : Except PErr (List Str) :=
  match fluxWalltime (run.getN "walltime") with
  | .error e => .error e
  | .ok wt =>
    let bh := cx.batch.set "walltime".toList (.str wt)
    let bh := if (run.getN "nodes").truthy then bh.set "nodes".toList (run.getN "nodes") else bh
    let bh := bh.set "flux_version".toList (.str cx.fluxVer)
    .ok (("#!".toList ++ cx.shell) :: fluxKeys.filterMap fun kp => (bh.get? kp.1).map (hline kp.2 ·))

def fluxHeader (cx : Ctx) (run : Dict) : Except PErr Str :=
  (fluxHeaderLines cx run).map (joinWith ['\n'])

/-! ### `_write_script` -/

structure Script where
  scheduled : Bool
  main      : Str
  restart   : Option Str
  deriving DecidableEq, Repr

def form (header cmd : Str) : Str := header ++ "\n\n".toList ++ cmd ++ ['\n']

def shebang (cx : Ctx) : Str := "#!".toList ++ cx.shell

/-- the script pair from a header for the main and for the restart script -/
def mkScript (sched : Bool) (header rheader cmd restart : Str) : Script :=
  { scheduled := sched, main := form header cmd,
    restart := if restart.isEmpty then none else some (form rheader restart) }

/-- `write_script` of each adapter: the text of the script(s) and the scheduled flag -/
def script (cx : Ctx) (name desc : Str) (run : Dict) : Except PErr Script :=
  match cx.adapter with
  | .localA =>
    let r := run.getN "restart"
    .ok (mkScript false (shebang cx) (shebang cx) (run.getN "cmd").pyStr (if r.truthy then r.pyStr else []))
  | .slurm =>
    match schedulerCommand cx run with
    | .error e => .error e
    | .ok (sched, cmd, restart) =>
      match (if sched then slurmHeader cx name desc run else .ok (shebang cx)) with
      | .error e => .error e
      | .ok header => .ok (mkScript sched header header cmd restart)
  | .lsf =>
    match schedulerCommand cx run with
    | .error e => .error e
    | .ok (sched, cmd, restart) =>
      match (if sched then lsfHeader cx name run else .ok (shebang cx)) with
      | .error e => .error e
      | .ok header => .ok (mkScript sched header header cmd restart)
  | .flux =>
    match schedulerCommand cx run with
    | .error e => .error e
    | .ok (sched, cmd, restart) =>
      -- the main script carries the (informational) header even when the step runs locally
      match fluxHeader cx run with
      | .error e => .error e
      | .ok header => .ok (mkScript sched header (if sched then header else shebang cx) cmd restart)

end MaestroVerif.Launcher
