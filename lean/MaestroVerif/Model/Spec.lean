/-
Model of specification loading and verification:
`YAMLSpecification.load_specification_from_stream / verify / validate_schema`,
the conversions `get_study_environment / get_study_steps / get_parameters`
and `Study.__init__ / add_step` (the phases of `maestro run` before staging).

A document is the parsed YAML tree (`Json`); the JSON-schema evaluator covers
the keywords the repository's schema file uses, and the four schemas are
regenerated from that file on every run (`Gen/Schema.lean`).
-/
import MaestroVerif.Model.Subst

namespace MaestroVerif.Spec
open MaestroVerif.Subst

/-- the parsed YAML document; floats are kept in tenths (the only float bounds
in the schema are 0.0 and 1.0) -/
inductive Json
  | null
  | bool (b : Bool)
  | int (n : Int)
  | float (tenths : Int)
  | str (s : Str)
  | arr (l : List Json)
  | obj (kvs : List (Str × Json))
  deriving Repr, Inhabited

inductive Ty | object | string | array | integer | number | boolean
  deriving DecidableEq, Repr

/-- the JSON-schema keywords used by `yamlspecification.json` -/
inductive Schema
  | mk (ty : Option Ty) (props : List (Str × Schema)) (required : List Str) (noAdditional : Bool)
       (minLength : Option Nat) (minItems : Option Nat) (minimum maximum : Option Int)   -- bounds in tenths
       (paramPattern : Bool)                                     -- pattern `^\$\(\w+\)$`
       (enum : Option (List Str)) (anyOf : List Schema) (items : Option Schema) (unique : Bool)
       (patternProps : Option Schema)                            -- patternProperties {"^.*": S}
  deriving Repr, Inhabited

/-! ### values -/

mutual
def Json.beq : Json → Json → Bool
  | .null, .null => true
  | .bool a, .bool b => a == b
  | .int a, .int b => a == b
  | .float a, .float b => a == b
  | .int a, .float b => a * 10 == b          -- Python: 1 == 1.0
  | .float a, .int b => a == b * 10
  | .str a, .str b => a == b
  | .arr a, .arr b => Json.beqList a b
  | .obj a, .obj b => Json.beqObj a b
  | _, _ => false
def Json.beqList : List Json → List Json → Bool
  | [], [] => true
  | a :: as, b :: bs => Json.beq a b && Json.beqList as bs
  | _, _ => false
def Json.beqObj : List (Str × Json) → List (Str × Json) → Bool
  | [], [] => true
  | (k, a) :: as, (l, b) :: bs => k == l && Json.beq a b && Json.beqObj as bs
  | _, _ => false
end

def Json.get? : Json → String → Option Json
  | .obj kvs, k => (kvs.find? (·.1 == k.toList)).map (·.2)
  | _, _ => none

def Json.has (j : Json) (k : String) : Bool := (j.get? k).isSome

/-- Python truthiness of a parsed value -/
def Json.truthy : Json → Bool
  | .null => false
  | .bool b => b
  | .int n => n != 0
  | .float t => t != 0
  | .str s => !s.isEmpty
  | .arr l => !l.isEmpty
  | .obj kvs => !kvs.isEmpty

def isWord (c : Char) : Bool := c.isAlphanum || c == '_'

/-- `re.search(r"^\$\(\w+\)$", s)` (ASCII `\w`; `$` also matches before a final newline) -/
def paramRef (s : Str) : Bool :=
  let body (t : Str) : Bool :=
    match t with
    | '$' :: '(' :: r =>
      let w := r.takeWhile isWord
      !w.isEmpty && r.drop w.length == [')']
    | _ => false
  body s || (s.getLast? == some '\n' && body s.dropLast)

def tyOk : Ty → Json → Bool
  | .object, .obj _ => true
  | .string, .str _ => true
  | .array, .arr _ => true
  | .integer, .int _ => true
  | .integer, .float t => t % 10 == 0          -- Draft 7: 2.0 is an integer
  | .number, .int _ => true
  | .number, .float _ => true
  | .boolean, .bool _ => true
  | _, _ => false

def tenthsOf : Json → Option Int
  | .int n => some (n * 10)
  | .float t => some t
  | _ => none

def nodupJson : List Json → Bool
  | [] => true
  | a :: as => !(as.any (Json.beq a)) && nodupJson as

/-- `Draft7Validator(schema).is_valid(instance)` for the keywords above -/
def valid : Nat → Schema → Json → Bool
  | 0, _, _ => false
  | fuel + 1, .mk ty props required noAdd minLen minItems minimum maximum pat enum anyOf items unique pprops, j =>
    (match ty with | some t => tyOk t j | none => true) &&
    (match j with
     | .obj kvs =>
       props.all (fun ps => match (kvs.find? (·.1 == ps.1)) with
         | some kv => valid fuel ps.2 kv.2
         | none => true) &&
       required.all (fun r => kvs.any (·.1 == r)) &&
       (!noAdd || pprops.isSome || kvs.all (fun kv => props.any (·.1 == kv.1))) &&
       (match pprops with
        | some s => kvs.all (fun kv => valid fuel s kv.2)
        | none => true)
     | .str s =>
       (match minLen with | some n => s.length ≥ n | none => true) &&
       (!pat || paramRef s)
     | .arr l =>
       (match minItems with | some n => l.length ≥ n | none => true) &&
       (match items with | some s => l.all (valid fuel s) | none => true) &&
       (!unique || nodupJson l)
     | _ => true) &&
    (match tenthsOf j with
     | some t => (match minimum with | some m => t ≥ m | none => true) &&
                 (match maximum with | some m => t ≤ m | none => true)
     | none => true) &&
    (match enum with
     | some es => (match j with | .str s => es.contains s | _ => false)
     | none => true) &&
    (anyOf.isEmpty || anyOf.any (fun s => valid fuel s j))

/-- schema nesting depth never exceeds this -/
def schemaFuel : Nat := 12

/-! ### the loading pipeline -/

inductive Outcome
  | accepted
  | rejected     -- ValidationError / ValueError: a diagnostic
  | crash        -- any other exception
  deriving DecidableEq, Repr

structure Schemas where
  description : Schema
  env : Schema
  step : Schema
  param : Schema

def objItems : Json → List (Str × Json)
  | .obj kvs => kvs
  | _ => []

def arrItems : Json → List Json
  | .arr l => l
  | _ => []

def strOf : Json → Option Str
  | .str s => some s
  | _ => none

/-- `re.sub(r"_\*|\*", "", s)` -/
def stripCombos : Str → Str
  | [] => []
  | '_' :: '*' :: r => stripCombos r
  | '*' :: r => stripCombos r
  | c :: r => c :: stripCombos r

def defaultEnv : Json :=
  .obj [("variables".toList, .obj []), ("sources".toList, .arr []), ("labels".toList, .obj []),
        ("dependencies".toList, .obj [])]

/-- iterating `dependencies[dep_type]` and indexing `item["name"]`
(`_verify_dependencies`): the names seen, or a crash -/
def depNames : Json → Option (List Json)
  | .arr l => l.mapM (fun it => match it with
      | .obj kvs => (kvs.find? (·.1 == "name".toList)).map (·.2)      -- KeyError when absent
      | _ => none)
  | .obj kvs => if kvs.isEmpty then some [] else none        -- iterates the keys: str["name"]
  | .str s => if s.isEmpty then some [] else none
  | _ => none                                                 -- not iterable

/-- unhashable names make `in keys_seen` raise -/
def hashable : Json → Bool
  | .arr _ => false
  | .obj _ => false
  | _ => true

/-- one dependency block of `_verify_dependencies`: every entry's name is looked up in, and added
to, the names seen so far -/
def depBlockStep (deps : Json) (acc : Option (List Json) × Outcome) (ty : String) :
    Option (List Json) × Outcome :=
  match acc with
  | (none, o) => (none, o)
  | (some seen, _) =>
    match deps.get? ty with
    | none => (some seen, .accepted)
    | some block =>
      match depNames block with
      | none => (none, .crash)
      | some names =>
        names.foldl (fun (a : Option (List Json) × Outcome) nm =>
          match a with
          | (none, o) => (none, o)
          | (some s, _) =>
            if !hashable nm then (none, .crash)
            else if s.any (Json.beq nm) then (none, .rejected)
            else (some (s ++ [nm]), .accepted)) (some seen, .accepted)

/-- `_verify_variables` + `_verify_dependencies` -/
def verifyEnvNames (env : Json) : Outcome :=
  let vars := objItems ((env.get? "variables").getD (.obj []))
  if vars.any (fun kv => kv.1.isEmpty) then .rejected
  else
    let seen0 : List Json := vars.map (fun kv => Json.str kv.1)
    match env.get? "dependencies" with
    | none => .accepted
    | some deps =>
      -- the two list-valued blocks (repair "fix: _verify_dependencies no longer crashes ...")
      (["paths", "git"].foldl (depBlockStep deps) (some seen0, .accepted)).2

/-- the name-level rules of `_verify_steps` after a step passed the schema -/
def stepNameOf (s : Json) : Json := (s.get? "name").getD .null

def stepDepends (s : Json) : List Json :=
  arrItems (((s.get? "run").getD (.obj [])).get? "depends" |>.getD (.arr []))

def sourceName : Str := "_source".toList

def verifySteps (sch : Schema) : List Json → List Json → Outcome
  | _, [] => .accepted
  | seen, s :: rest =>
    if !valid schemaFuel sch s then .rejected
    else
      let nm := stepNameOf s
      -- `_source` is the root the study graph adds itself (repair "fix: reject the reserved step name")
      if Json.beq nm (.str sourceName) then .rejected
      else if seen.any (Json.beq nm) then .rejected
      else if (stepDepends s).any (fun d => match d, nm with
          | .str ds, .str ns => stripCombos ds == ns
          | _, _ => false) then .rejected
      else verifySteps sch (seen ++ [nm]) rest

def verifyParams (sch : Schema) : Option Nat → List (Str × Json) → Outcome
  | _, [] => .accepted
  | len, (_, v) :: rest =>
    if !valid schemaFuel sch v then .rejected
    else
      let n := (arrItems ((v.get? "values").getD (.arr []))).length
      match len with
      | none => verifyParams sch (some n) rest
      | some m => if n != m then .rejected else verifyParams sch (some m) rest

/-- `get_study_environment` followed by the additions `run_study` makes
(`OUTPUT_PATH`, `SPECROOT`): every name may be used once -/
def envNames (env : Json) : Option (List Str) :=
  -- variables and labels become `Variable(key, value)`: an empty name or a `None` value is a ValueError
  let vars := objItems ((env.get? "variables").getD (.obj []))
  let labels := objItems ((env.get? "labels").getD (.obj []))
  let bad (kv : Str × Json) : Bool := kv.1.isEmpty || (match kv.2 with | .null => true | _ => false)
  if vars.any bad || labels.any bad then none
  else
    let deps := (env.get? "dependencies").getD (.obj [])
    let paths := arrItems ((deps.get? "paths").getD (.arr []))
    let git := arrItems ((deps.get? "git").getD (.arr []))
    let nm (it : Json) : Str := (strOf ((it.get? "name").getD .null)).getD []
    some (vars.map (·.1) ++ labels.map (·.1) ++ paths.map nm ++ git.map nm)

def nodupStr : List Str → Bool
  | [] => true
  | a :: as => !as.contains a && nodupStr as

/-- `add_edge(dep, step)` for the dependencies of one step, in order: an unknown
parent is a `ValueError`; a step that took the reserved name `_source` closes a
cycle (`Exception`) -/
def depsOutcome (seen : List Str) (nm : Str) : List Json → Outcome
  | [] => .accepted
  | .str ds :: r =>
    if !(seen.contains (stripCombos ds) || stripCombos ds == sourceName) then .rejected
    else if nm == sourceName && stripCombos ds != sourceName then .crash
    else depsOutcome seen nm r
  | _ :: _ => .crash

/-- `Study.__init__`: the steps are added in order -/
def edgesOutcome : List Str → List Json → Outcome
  | _, [] => .accepted
  | seen, s :: rest =>
    match depsOutcome seen ((strOf (stepNameOf s)).getD []) (stepDepends s) with
    | .accepted => edgesOutcome (seen ++ [(strOf (stepNameOf s)).getD []]) rest
    | o => o

/-- `Script(source)` for each entry of `env.sources`: a non-string is a
`TypeError`, a string without a word character a `ValueError` -/
def sourcesOutcome : List Json → Outcome
  | [] => .accepted
  | .str s :: rest => if s.any isWord then sourcesOutcome rest else .rejected
  | _ :: _ => .crash

/-- the outcome of `maestro run` up to and including `Study(...)` -/
def load (S : Schemas) (doc : Json) : Outcome :=
  match doc with
  | .obj _ =>
    let description := (doc.get? "description").getD (.obj [])
    let env := (doc.get? "env").getD defaultEnv
    let study := (doc.get? "study").getD (.arr [])
    let globals := (doc.get? "global.parameters").getD (.obj [])
    if !valid schemaFuel S.description description then .rejected
    else if !valid schemaFuel S.env env then .rejected
    else
      match verifyEnvNames env with
      | .rejected => .rejected
      | .crash => .crash
      | .accepted =>
        if !study.truthy then .rejected
        else match study with
          | .arr steps =>
            (match verifySteps S.step [] steps with
             | .rejected => .rejected
             | .crash => .crash
             | .accepted =>
               match globals with
               | .obj params =>
                 (match verifyParams S.param none params with
                  | .rejected => .rejected
                  | .crash => .crash
                  | .accepted =>
                    -- conversions
                    match sourcesOutcome (arrItems ((env.get? "sources").getD (.arr []))) with
                    | .rejected => .rejected
                    | .crash => .crash
                    | .accepted =>
                      match envNames env with
                      | none => .rejected
                      | some names =>
                        if !nodupStr (names.filter (· != "OUTPUT_PATH".toList) ++
                            ["OUTPUT_PATH".toList, "SPECROOT".toList]) then .rejected
                        else edgesOutcome [] steps)
               | _ => .rejected)
          | _ => .rejected
  | _ => .rejected

/-- the step names of an accepted document, in order -/
def stepNames (doc : Json) : List Str :=
  ((arrItems ((doc.get? "study").getD (.arr []))).map (fun s => (strOf (stepNameOf s)).getD [])).filter
    (· != sourceName)

end MaestroVerif.Spec
