-- Root of the `MaestroVerif` library: models, generated tables, lemmas, property theorems.
import MaestroVerif.Model.Dag
