import MaestroVerif.Model.Dag
import MaestroVerif.Model.Exec
import MaestroVerif.Model.Sched
import MaestroVerif.Model.Csv
import MaestroVerif.Model.Lock
import MaestroVerif.Model.Conductor
import MaestroVerif.Model.Expand
import MaestroVerif.Model.Env
import MaestroVerif.Model.Launcher
import MaestroVerif.Model.Spec
import MaestroVerif.Gen.Schema
open MaestroVerif

/-! Line-protocol driver: one operation per input line, one canonical answer line per operation. -/

def fmtList (l : List Nat) : String := "[" ++ ",".intercalate (l.map toString) ++ "]"

def fmtOptList : Option (List Nat) → String
  | none => "X"
  | some l => fmtList l


/-! strings travel as `_`-separated hexadecimal code points (`-` = empty string) -/
def hexVal (c : Char) : Nat :=
  if '0' ≤ c && c ≤ '9' then c.toNat - '0'.toNat
  else if 'a' ≤ c && c ≤ 'f' then c.toNat - 'a'.toNat + 10
  else if 'A' ≤ c && c ≤ 'F' then c.toNat - 'A'.toNat + 10 else 0

def unhex (s : String) : List Char :=
  if s == "-" || s.isEmpty then [] else
  (s.splitOn "_").map fun t => Char.ofNat (t.toList.foldl (fun n c => n * 16 + hexVal c) 0)

def hexDigit (n : Nat) : Char :=
  if n < 10 then Char.ofNat ('0'.toNat + n) else Char.ofNat ('a'.toNat + n - 10)

def toHexNat (n : Nat) : String :=
  if n < 16 then String.singleton (hexDigit n)
  else
    let rec go (fuel n : Nat) (acc : List Char) : List Char :=
      match fuel with
      | 0 => acc
      | f + 1 => if n == 0 then acc else go f (n / 16) (hexDigit (n % 16) :: acc)
    String.ofList (go 16 n [])

def hex (s : List Char) : String :=
  if s.isEmpty then "-" else "_".intercalate (s.map fun c => toHexNat c.toNat)

def kvOf (toks : List String) (key : String) : String :=
  match toks.find? (fun t => t.startsWith (key ++ "=")) with
  | some t => (t.drop (key.length + 1)).toString
  | none => ""

def hexList (s : String) : List (List Char) :=
  if s.isEmpty then [] else (s.splitOn ",").map unhex

namespace DagDrv
open Dag

def fmtOutcome : Outcome → String
  | .ok => "ok" | .valueError => "ValueError" | .cycleError => "Exception" | .outOfFuel => "OutOfFuel"

def dump (g : Dag.Dag) : String :=
  let adj := ";".intercalate (g.nodes.map fun n => s!"{n}:{fmtList (g.adj n)}")
  let cyc := match detectCycle g with | none => "X" | some true => "1" | some false => "0"
  let bfsS := ";".intercalate (g.nodes.map fun n => s!"{n}:{fmtOptList (bfs g n)}")
  let dfsS := ";".intercalate (g.nodes.map fun n => s!"{n}:{fmtOptList (dfs g n)}")
  s!"nodes={fmtList g.nodes} adj={adj} cyc={cyc} topo={fmtOptList (topoSort g)} bfs={bfsS} dfs={dfsS}"

def step (g : Dag.Dag) (toks : List String) : Dag.Dag × String :=
  match toks with
  | ["dag.reset"] => (Dag.empty, "ok")
  | ["dag.node", n] => match n.toNat? with
      | some k => let g' := addNode g k; (g', s!"out=ok {dump g'}")
      | none => (g, "bad-op")
  | ["dag.edge", s, d] => match s.toNat?, d.toNat? with
      | some a, some b => let r := addEdge g a b; (r.1, s!"out={fmtOutcome r.2} {dump r.1}")
      | _, _ => (g, "bad-op")
  | ["dag.rmedge", s, d] => match s.toNat?, d.toNat? with
      | some a, some b => let r := removeEdge g a b; (r.1, s!"out={fmtOutcome r.2} {dump r.1}")
      | _, _ => (g, "bad-op")
  | _ => (g, "bad-op")
end DagDrv


namespace ExecDrv
open Exec Gen

def kv (toks : List String) (key : String) : String :=
  match toks.find? (fun t => t.startsWith (key ++ "=")) with
  | some t => (t.drop (key.length + 1)).toString
  | none => ""

def bits (s : String) : List Bool := s.toList.map (· == '1')

def parseEdges (s : String) : List (Nat × Nat) :=
  if s.isEmpty then [] else
  (s.splitOn ",").filterMap fun e =>
    match e.splitOn ">" with
    | [a, b] => match a.toNat?, b.toNat? with
      | some x, some y => some (x, y)
      | _, _ => none
    | _ => none

def mkCfg (toks : List String) : Cfg :=
  let n := (kv toks "n").toNat!
  let edges := parseEdges (kv toks "edges")
  let sched := bits (kv toks "sched")
  let rst := bits (kv toks "restart")
  let rl := (kv toks "rlimit").toNat!
  let subs := bits (kv toks "subs")
  let adj : Nat → List Nat := fun a => (edges.filter (fun e => e.1 == a)).map (·.2) |>.eraseDups
  let par : Nat → List Nat := fun b => (edges.filter (fun e => e.2 == b)).map (·.1) |>.eraseDups
  { n := n, dag := { nodes := List.range (n + 1), adj := adj }, parents := par,
    sched := fun i => sched.getD (i - 1) true,
    hasRestart := fun i => rst.getD (i - 1) false,
    rlimit := fun i => if rst.getD (i - 1) false then rl else 0,
    throttle := (kv toks "throttle").toNat!, attempts := (kv toks "attempts").toNat!,
    dry := kv toks "dry" == "1",
    subOk := fun k => subs.getD k true }

def parseState (s : String) : Option State := State.all.find? (fun x => x.name == s)

def parseReports (s : String) : List (Nat × Option State) :=
  if s.isEmpty || s == "-" then [] else
  (s.splitOn ",").filterMap fun r =>
    match r.splitOn ":" with
    | [a, b] => match a.toNat? with
      | some i => some (i, if b == "-" then none else parseState b)
      | none => none
    | _ => none

def parseCode (s : String) : JobStatusCode :=
  if s == "OK" then .OK else if s == "NOJOBS" then .NOJOBS else .ERROR

def insertSorted (x : Nat) : List Nat → List Nat
  | [] => [x]
  | y :: ys => if x ≤ y then x :: y :: ys else y :: insertSorted x ys

def sortNat (l : List Nat) : List Nat := l.foldr insertSorted []

def fmtSet (l : List Nat) : String := ",".intercalate ((sortNat l).map toString)

def b01 (b : Bool) : String := if b then "ok" else "fail"
def mr (b : Bool) : String := if b then "restart" else "main"

def fmtEv : Ev → String
  | .check l => s!"check[{fmtSet l}]"
  | .gen i => s!"gen({i})"
  | .submit i r ok j => s!"submit({i},{mr r},{b01 ok},{if ok then j else 0})"
  | .localRun i r ok j => s!"local({i},{mr r},{b01 ok},{if ok then j else 0})"
  | .cancelJobs l => s!"cancel[{fmtSet l}]"

def dump (cfg : Cfg) (g : G) : String :=
  let st := " ".intercalate ((List.range cfg.n).map fun k =>
    let i := k + 1
    s!"{i}:{(g.status i).name}:{(g.jobs i).getLast?.getD 0}:{g.restarts i}:[{fmtSet (g.deps i)}]")
  let rdy := ",".intercalate (g.ready.map toString)
  s!"st={st} done=\{{fmtSet g.completed}} prog=\{{fmtSet g.inProgress}} fail=\{{fmtSet g.failed}} canc=\{{fmtSet g.cancelled}} ready=[{rdy}] cflag={if g.isCanceled then 1 else 0}"

structure St where
  cfg : Cfg
  g : G

def newEvents (old new : G) : String :=
  ";".intercalate ((new.log.drop old.log.length).map fmtEv)

def step (st : Option St) (toks : List String) : Option St × String :=
  match toks with
  | "exec.graph" :: rest =>
    let cfg := mkCfg rest
    let order := match Dag.statusOrder cfg.dag with
      | some l => ",".intercalate (l.map toString)
      | none => "X"
    (some ⟨cfg, init cfg⟩, s!"ok order={order}")
  | ["exec.cancel"] =>
    match st with
    | none => (st, "bad-op")
    | some s =>
      let g' := cancel s.g
      (some { s with g := g' }, s!"ret=ok ev={newEvents s.g g'} {dump s.cfg g'}")
  | "exec.poll" :: code :: rest =>
    match st with
    | none => (st, "bad-op")
    | some s =>
      let reps := parseReports (rest.headD "")
      let r := poll s.cfg s.g { code := parseCode code, reports := reps }
      let ret := match r.2 with
        | .raised => "RAISE:RuntimeError"
        | .status v => v.name
      (some { s with g := r.1 }, s!"ret={ret} ev={newEvents s.g r.1} {dump s.cfg r.1}")
  | _ => (st, "bad-op")
end ExecDrv


namespace SchedDrv
open Sched Gen

def fmtStatus (st : Status) : String :=
  ",".intercalate (st.map fun e => s!"{hex e.1}:{match e.2 with | some v => v.name | none => "None"}")

def fmtRes : Except Unit (JobStatusCode × Status) → String
  | .error _ => "RAISE:IndexError"
  | .ok (c, st) => s!"code={c.name} st={fmtStatus st}"

def step (toks : List String) : String :=
  match toks with
  | "sched.slurm" :: rest =>
    fmtRes (slurmCheck (hexList (kvOf rest "ids"))
      ⟨(kvOf rest "sqrc").toNat!, unhex (kvOf rest "sq")⟩
      (acctReply (hexList (kvOf rest "ids")) ⟨(kvOf rest "sarc").toNat!, unhex (kvOf rest "sa")⟩))
  | "sched.submit" :: rest =>
    (match submitResult (kvOf rest "rc").toNat! (unhex (kvOf rest "out")) with
     | .error _ => "RAISE:AttributeError"
     | .ok (c, some j) => s!"{c.name} {hex j}"
     | .ok (c, none) => s!"{c.name} -")
  | "sched.lsf" :: rest =>
    fmtRes (lsfCheck (hexList (kvOf rest "ids")) ⟨(kvOf rest "rc").toNat!, unhex (kvOf rest "out")⟩)
  | "sched.flux" :: rest =>
    let ans := (kvOf rest "ans")
    let pairs := if ans.isEmpty then [] else (ans.splitOn ",").filterMap fun p =>
      match p.splitOn ":" with
      | [a, b] => some (unhex a, unhex b)
      | _ => none
    fmtRes (.ok (fluxCheck (hexList (kvOf rest "ids")) pairs (kvOf rest "errs" == "1")))
  | ["sched.state", which, s] =>
    let str := String.ofList (unhex s)
    if which == "slurm" then (slurmState str).name
    else if which == "lsf" then (lsfState str).name
    else (fluxState str).name
  | "sched.cancel" :: rest =>
    let n := (kvOf rest "n").toNat!
    let r := cancelJobs (List.replicate n ['j']) (kvOf rest "rc").toNat!
    s!"{r.1.name} {r.2}"
  | _ => "bad-op"
end SchedDrv


namespace CsvDrv
open Csv

def fmtTable (t : Table) : String :=
  ";".intercalate (t.map fun e => s!"{hex e.1}=" ++ ",".intercalate (e.2.map hex))

/-- rows travel as `;`-separated rows of `,`-separated hex fields -/
def parseRows (s : String) : List (List (List Char)) :=
  if s.isEmpty then [] else (s.splitOn ";").map hexList

def step (toks : List String) : String :=
  match toks with
  | ["csv.read", content] =>
    match readCsv (unhex content) with
    | .ok t => "ok " ++ fmtTable t
    | .error .keyError => "RAISE:KeyError"
    | .error .indexError => "RAISE:IndexError"
  | "csv.write" :: rest =>
    hex (writeCsv (hexList (kvOf rest "header")) (parseRows (kvOf rest "rows")))
  | "lock.trace" :: who :: ops =>
    let want := if who == "writer" then Lock.writerTrace
      else if who == "reader" then Lock.readerTrace
      else if who == "writer-timeout" then Lock.writerTimeoutTrace
      else Lock.readerTimeoutTrace
    if ops == want then "accept" else s!"reject expected={" ".intercalate want}"
  | _ => "bad-op"
end CsvDrv


namespace ExpDrv
open Expand Subst

structure St where
  root : List Char := []
  hash : Bool := false
  rlimit : Nat := 0
  params : List Param := []
  steps : List Step := []
  md5 : List (List Char × List Char) := []

def pairs (s : String) : List (List Char × List Char) :=
  if s.isEmpty then [] else (s.splitOn ",").filterMap fun p =>
    match p.splitOn ":" with
    | [a, b] => some (unhex a, unhex b)
    | _ => none

def fmtInst (i : Inst) : String :=
  let ps := "&".intercalate (i.params.map fun kv => s!"{hex kv.1}={hex kv.2}")
  -- a resource key whose value became empty is listed on neither side (`studysim.extras_of` skips it)
  let ex := "&".intercalate ((i.extras.filter fun kv => !kv.2.isEmpty).map fun kv => s!"{hex kv.1}={hex kv.2}")
  s!"{hex i.name}|{hex i.nick}|{hex i.ws}|{hex i.cmd}|{hex i.restart}|{i.rlimit}|{ps}|{ex}"

def fmtAssoc (l : List (List Char × List (List Char))) (sorted : Bool) : String :=
  ";".intercalate (l.map fun e =>
    s!"{hex e.1}:" ++ ",".intercalate ((if sorted then sortDedup e.2 else e.2).map hex))

def fmtErr : Err → String
  | .edgeSrcMissing => "RAISE:ValueError"
  | .cycle => "RAISE:Exception"
  | .wsBeforeGenerated => "RAISE:Exception"
  | .keyError => "RAISE:KeyError"
  | .recursion => "RAISE:RecursionError"

def step (st : St) (toks : List String) : St × String :=
  match toks with
  | "exp.begin" :: rest =>
    ({ root := unhex (kvOf rest "root"), hash := kvOf rest "hash" == "1",
       rlimit := (kvOf rest "rlimit").toNat! }, "ok")
  | "exp.param" :: rest =>
    let hasT := rest.any (·.startsWith "tmpl=")
    let p : Param := { key := unhex (kvOf rest "key"), name := unhex (kvOf rest "name"),
                       tmpl := if hasT then some (unhex (kvOf rest "tmpl")) else none,
                       labels := hexList (kvOf rest "labels"), values := hexList (kvOf rest "vals") }
    ({ st with params := st.params ++ [p] }, "ok")
  | "exp.step" :: rest =>
    let s : Step := { name := unhex (kvOf rest "name"), cmd := unhex (kvOf rest "cmd"),
                      restart := unhex (kvOf rest "restart"), depends := hexList (kvOf rest "deps"),
                      texts := hexList (kvOf rest "texts"), extras := pairs (kvOf rest "extras") }
    ({ st with steps := st.steps ++ [s] }, "ok")
  | "exp.md5" :: rest => ({ st with md5 := st.md5 ++ pairs (rest.headD "") }, "ok")
  | ["exp.stage"] =>
    let spec : Spec := { root := st.root, hashWs := st.hash, rlimit := st.rlimit, params := st.params,
                         steps := st.steps, md5 := st.md5 }
    match stage spec id with
    | .error e => (st, fmtErr e)
    | .ok g =>
      (st, s!"ok insts={";".intercalate (g.insts.map fmtInst)} adj={fmtAssoc g.adj false} deps={fmtAssoc g.deps true}")
  | ["exp.tables"] =>
    -- the tables `_stage` leaves behind, keys and members in sorted order
    let spec : Spec := { root := st.root, hashWs := st.hash, rlimit := st.rlimit, params := st.params,
                         steps := st.steps, md5 := st.md5 }
    match stageSS spec id with
    | .error e => (st, fmtErr e)
    | .ok s =>
      let byKey (l : List (List Char × List (List Char))) :=
        fmtAssoc ((sortDedup (l.map (·.1))).map fun k => (k, getAssoc l k)) true
      let ws := ";".intercalate ((sortDedup (s.workspaces.map (·.1))).map fun k =>
        s!"{hex k}:{hex (lookup s.workspaces k)}")
      (st, s!"ok used={byKey s.used} combos={byKey s.combos} hub={byKey s.hub} depends={byKey s.depends} ws={ws}")
  | "subst.env" :: rest =>
    -- `StudyEnvironment.apply_environment` on an environment given group by group
    let e : Env.Env := { labels := pairs (kvOf rest "labels"), deps := pairs (kvOf rest "deps"),
                         subs := pairs (kvOf rest "vars"), registered := true, names := [] }
    (st, hex (e.apply (unhex (kvOf rest "text"))))
  | "subst.envadd" :: rest =>
    -- `StudyEnvironment.add` item by item (`v:name:value:s|n` a Variable with a string / numeric value,
    -- `d:name:path` a path dependency), then `apply_environment` on the text
    let items : List Env.Item := ((kvOf rest "items").splitOn ",").filterMap fun p =>
      match p.splitOn ":" with
      | ["v", n, v, t] => some (Env.Item.var (unhex n) (unhex v) (t == "s"))
      | ["d", n, v] => some (Env.Item.dep (unhex n) (unhex v))
      | _ => none
    match Env.addAll items with
    | none => (st, "ValueError")
    | some e =>
      let names (l : List (List Char × List Char)) := ",".intercalate (l.map fun kv => hex kv.1)
      (st, s!"labels={names e.labels} deps={names e.deps} subs={names e.subs} reg={if e.registered then 1 else 0} out={hex (e.apply (unhex (kvOf rest "text")))}")
  | ["subst.replace", s, old, new] => (st, hex (replaceAll (unhex s) (unhex old) (unhex new)))
  | ["subst.findws", s] => (st, ",".intercalate ((usedSpaces (unhex s)).map hex))
  | ["exp.capture", cwd, name, pid] =>
    let r := localCapturePaths (unhex cwd) (unhex name) (unhex pid)
    (st, s!"{hex r.1} {hex r.2}")
  | ["exp.sanitize", s] => (st, hex (sanitize (unhex s)))
  | ["exp.safepath", base, args] => (st, hex (makeSafePath (unhex base) (hexList args)))
  | _ => (st, "bad-op")
end ExpDrv

namespace LaunchDrv
open Launcher

def parseVal (s : String) : Val :=
  match s.toList with
  | 'n' :: _ => .none
  | 'i' :: '-' :: r => .int (-(String.ofList r).toNat!)
  | 'i' :: r => .int (String.ofList r).toNat!
  | 'b' :: 'T' :: _ => .bool true
  | 'b' :: _ => .bool false
  | 's' :: r => .str (unhex (String.ofList r))
  | _ => .none

def parseDict (s : String) : Dict :=
  if s.isEmpty then [] else (s.splitOn ",").filterMap fun p =>
    match p.splitOn ":" with
    | [a, b] => some (unhex a, parseVal b)
    | _ => none

def fmtErr : PErr → String
  | .valueError => "RAISE:ValueError" | .typeError => "RAISE:TypeError"
  | .runtimeError => "RAISE:RuntimeError" | .attributeError => "RAISE:AttributeError"
  | .keyError => "RAISE:KeyError" | .zeroDivision => "RAISE:ZeroDivisionError"

def parseAdapter (s : String) : Adapter :=
  if s == "slurm" then .slurm else if s == "lsf" then .lsf else if s == "flux" then .flux else .localA

def step (toks : List String) : String :=
  match toks with
  | "launch.script" :: rest =>
    let fargs := (ExpDrv.pairs (kvOf rest "fargs"))
    match mkCtx (parseAdapter (kvOf rest "adapter")) (parseDict (kvOf rest "kw")) fargs
        (parseVal (kvOf rest "envuri")) (unhex (kvOf rest "fver")) with
    | .error e => "INIT-" ++ fmtErr e
    | .ok cx =>
      match script cx (unhex (kvOf rest "name")) (unhex (kvOf rest "desc")) (parseDict (kvOf rest "run")) with
      | .error e => fmtErr e
      | .ok sc =>
        let r := match sc.restart with
          | some t => hex t
          | none => "X"
        s!"ok sched={if sc.scheduled then 1 else 0} main={hex sc.main} restart={r}"
  | ["launch.allocs", s] => ";".intercalate ((findAllocs ((unhex s).length + 1) (unhex s)).map hex)
  | _ => "bad-op"
end LaunchDrv

namespace SpecDrv
open Spec

def takeUntil (stop : Char) (cs : List Char) : List Char × List Char :=
  let a := cs.takeWhile (· != stop)
  (a, (cs.drop a.length).drop 1)

def intOf (cs : List Char) : Int :=
  match cs with
  | '-' :: r => -((String.ofList r).toNat! : Int)
  | r => ((String.ofList r).toNat! : Int)

mutual
partial def parseJ : List Char → Option (Json × List Char)
  | 'n' :: r => some (.null, r)
  | 't' :: r => some (.bool true, r)
  | 'f' :: r => some (.bool false, r)
  | 'i' :: r => let (a, r') := takeUntil ';' r; some (.int (intOf a), r')
  | 'd' :: r => let (a, r') := takeUntil ';' r; some (.float (intOf a), r')
  | 's' :: r => let (a, r') := takeUntil ';' r; some (.str (unhex (String.ofList a)), r')
  | '[' :: r => (parseArr r []).map fun (l, r') => (.arr l, r')
  | '{' :: r => (parseObj r []).map fun (l, r') => (.obj l, r')
  | _ => none
partial def parseArr : List Char → List Json → Option (List Json × List Char)
  | ']' :: r, acc => some (acc.reverse, r)
  | cs, acc => match parseJ cs with
    | some (v, r) => parseArr r (v :: acc)
    | none => none
partial def parseObj : List Char → List (List Char × Json) → Option (List (List Char × Json) × List Char)
  | '}' :: r, acc => some (acc.reverse, r)
  | cs, acc =>
    let (k, r) := takeUntil ':' cs
    match parseJ r with
    | some (v, r') => parseObj r' ((unhex (String.ofList k), v) :: acc)
    | none => none
end

def fmtOutcome : Outcome → String
  | .accepted => "accepted" | .rejected => "rejected" | .crash => "crash"

def step (toks : List String) : String :=
  match toks with
  | ["spec.load", enc] =>
    match parseJ enc.toList with
    | some (j, _) =>
      let o := load Gen.schemas j
      if o == .accepted then s!"accepted steps={",".intercalate ((stepNames j).map hex)}" else fmtOutcome o
    | none => "bad-json"
  | ["spec.valid", which, enc] =>
    match parseJ enc.toList with
    | some (j, _) =>
      let sch := if which == "description" then Gen.descriptionSchema else if which == "env" then Gen.envSchema
        else if which == "step" then Gen.stepSchema else Gen.paramSchema
      if valid schemaFuel sch j then "valid" else "invalid"
    | none => "bad-json"
  | ["spec.paramref", s] => if paramRef (unhex s) then "1" else "0"
  | _ => "bad-op"
end SpecDrv

structure DrvState where
  dag : Dag.Dag := Dag.empty
  exec : Option ExecDrv.St := none
  exp : ExpDrv.St := {}

namespace CondDrv
open Conductor Exec Gen

def fmtEv : CEv → String
  | .lockCheck b => s!"lockCheck({if b then 1 else 0})"
  | .lockAcquire b => s!"lockAcquire({if b then 1 else 0})"
  | .cancelStudy => "cancelStudy"
  | .lockRemove => "lockRemove"
  | .poll => "poll"
  | .pickle => "pickle"
  | .writeStatus => "writeStatus"
  | .sleep => "sleep"

def parseRet (s : String) : Option Ret :=
  if s == "RAISED" then some .raised
  else (StudyStatus.all.find? (·.name == s)).map Ret.status

/-- `cond.trace l:a:RET ...` - the operations `monitor_study` performs in iterations whose
environment (cancel lock file present, its file lock obtained) and poll result are given -/
def step (toks : List String) : String :=
  match toks with
  | "cond.trace" :: its =>
    let parts := its.map fun t =>
      match t.splitOn ":" with
      | [l, a, r] =>
        match parseRet r with
        | some ret => some (" ".intercalate ((iterTrace (l == "1") (a == "1") ret).map fmtEv))
        | none => none
      | _ => none
    if parts.all (·.isSome) then " | ".intercalate (parts.filterMap id) else "bad-op"
  | _ => "bad-op"
end CondDrv

def stepLine (st : DrvState) (line : String) : DrvState × String :=
  let toks := (line.trimAscii.toString.splitOn " ").filter (· ≠ "")
  match toks with
  | [] => (st, "")
  | t :: _ =>
    if t.startsWith "dag." then
      let r := DagDrv.step st.dag toks
      ({ st with dag := r.1 }, r.2)
    else if t.startsWith "exec." then
      let r := ExecDrv.step st.exec toks
      ({ st with exec := r.1 }, r.2)
    else if t.startsWith "sched." then (st, SchedDrv.step toks)
    else if t.startsWith "csv." || t.startsWith "lock." then (st, CsvDrv.step toks)
    else if t.startsWith "cond." then (st, CondDrv.step toks)
    else if t.startsWith "launch." then (st, LaunchDrv.step toks)
    else if t.startsWith "spec." then (st, SpecDrv.step toks)
    else if t.startsWith "exp." || t.startsWith "subst." then
      let r := ExpDrv.step st.exp toks
      ({ st with exp := r.1 }, r.2)
    else (st, "bad-op")

partial def loop (h : IO.FS.Stream) (out : IO.FS.Stream) (st : DrvState) : IO Unit := do
  let line ← h.getLine
  if line.isEmpty then return ()
  let (st', o) := stepLine st line
  out.putStrLn o
  loop h out st'

def main : IO Unit := do
  let stdin ← IO.getStdin
  let stdout ← IO.getStdout
  loop stdin stdout {}
