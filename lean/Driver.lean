import MaestroVerif.Model.Dag
open MaestroVerif

/-! Line-protocol driver: one operation per input line, one canonical answer line per operation. -/

def fmtList (l : List Nat) : String := "[" ++ ",".intercalate (l.map toString) ++ "]"

def fmtOptList : Option (List Nat) → String
  | none => "X"
  | some l => fmtList l

namespace DagDrv
open Dag

def fmtOutcome : Outcome → String
  | .ok => "ok" | .valueError => "ValueError" | .cycleError => "Exception" | .outOfFuel => "OutOfFuel"

def dump (g : Dag.Dag) : String :=
  let adj := ";".intercalate (g.nodes.map fun n => s!"{n}:{fmtList (g.adj n)}")
  let cyc := match detectCycle g with | none => "X" | some true => "1" | some false => "0"
  let bfsS := ";".intercalate (g.nodes.map fun n => s!"{n}:{fmtOptList (bfs g n)}")
  let dfsS := ";".intercalate (g.nodes.map fun n => s!"{n}:{fmtOptList (dfs g n)}")
  s!"nodes={fmtList g.nodes} adj={adj} cyc={cyc} topo={fmtOptList (topoSort g)} bfs={bfsS} dfs={dfsS}"

def step (g : Dag.Dag) (toks : List String) : Dag.Dag × String :=
  match toks with
  | ["dag.reset"] => (Dag.empty, "ok")
  | ["dag.node", n] => match n.toNat? with
      | some k => let g' := addNode g k; (g', s!"out=ok {dump g'}")
      | none => (g, "bad-op")
  | ["dag.edge", s, d] => match s.toNat?, d.toNat? with
      | some a, some b => let r := addEdge g a b; (r.1, s!"out={fmtOutcome r.2} {dump r.1}")
      | _, _ => (g, "bad-op")
  | ["dag.rmedge", s, d] => match s.toNat?, d.toNat? with
      | some a, some b => let r := removeEdge g a b; (r.1, s!"out={fmtOutcome r.2} {dump r.1}")
      | _, _ => (g, "bad-op")
  | _ => (g, "bad-op")
end DagDrv

structure DrvState where
  dag : Dag.Dag := Dag.empty

def stepLine (st : DrvState) (line : String) : DrvState × String :=
  let toks := (line.trimAscii.toString.splitOn " ").filter (· ≠ "")
  match toks with
  | [] => (st, "")
  | t :: _ =>
    if t.startsWith "dag." then
      let r := DagDrv.step st.dag toks
      ({ st with dag := r.1 }, r.2)
    else (st, "bad-op")

partial def loop (h : IO.FS.Stream) (out : IO.FS.Stream) (st : DrvState) : IO Unit := do
  let line ← h.getLine
  if line.isEmpty then return ()
  let (st', o) := stepLine st line
  out.putStrLn o
  loop h out st'

def main : IO Unit := do
  let stdin ← IO.getStdin
  let stdout ← IO.getStdout
  loop stdin stdout {}
